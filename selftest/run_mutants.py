#!/venv/bin/python
"""Run the semantic mutants of selftest/mutants.tsv (each on a scratch copy of /repo, one at a time) and
write SENSITIVITY.md.  usage: run_mutants.py [id-substring ...]"""
import os, subprocess, sys, shutil, tempfile, re, time
HERE = os.path.dirname(os.path.dirname(os.path.abspath(__file__)))
rows = []
sel = sys.argv[1:]
for line in open(os.path.join(HERE, 'selftest', 'mutants.tsv')):
    if line.startswith('#') or not line.strip():
        continue
    mid, prop, f, expr, args = line.rstrip('\n').split('\t')
    if sel and not any(s in mid or s == prop for s in sel):
        continue
    d = tempfile.mkdtemp(prefix='vp_mut_', dir='/tmp')
    try:
        subprocess.check_call(['rsync', '-a', '--exclude', '.git', '--exclude', '__pycache__', '/repo/', d + '/'])
        subprocess.check_call(['sed', '-i', '-E', expr, os.path.join(d, f)])
        changed = subprocess.call(['diff', '-q', os.path.join(d, f), os.path.join('/repo', f)], stdout=subprocess.DEVNULL) != 0
        if not changed:
            rows.append((mid, prop, 'MUTANT-DID-NOT-APPLY', 0, ''))
            print(mid, 'did not apply', flush=True)
            continue
        env = dict(os.environ, VP_REPO=d, VP_REPLAY_DIR=os.path.join(d, '.replays'))
        t0 = time.time()
        r = subprocess.run([os.path.join(HERE, 'check')] + args.split() + ['--no-evidence'], env=env, capture_output=True, text=True, cwd=HERE)
        first = next((l for l in r.stdout.splitlines() if l.startswith('FAIL')), '')
        m = re.search(r'relation=(.*?) regime', first)
        rows.append((mid, prop, {0: 'SURVIVED', 1: 'killed', 2: 'harness-error'}.get(r.returncode, str(r.returncode)), time.time() - t0, m.group(1) if m else ''))
        print(rows[-1], flush=True)
    finally:
        shutil.rmtree(d, ignore_errors=True)
if not sel:
    with open(os.path.join(HERE, 'SENSITIVITY.md'), 'w') as f:
        f.write('# Sensitivity: semantic mutants vs the quick tier\n\n| mutant | property | outcome | wall s | first failing relation |\n|---|---|---|---|---|\n')
        for r in rows:
            f.write('| %s | %s | %s | %.0f | %s |\n' % r)
killed = sum(1 for r in rows if r[2] == 'killed')
print('killed %d / %d' % (killed, len(rows)))
