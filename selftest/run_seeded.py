#!/venv/bin/python
"""Run the registered checks against the seeded changes kept under /verif/seeded/<ID>/<k>/.

Each seeded change (patch.diff + demo.py + meta.json) was produced by an independent sub-agent that saw
only the text of the property and its own scratch worktree.  For every change this tool
  1. copies /repo to a scratch directory outside /repo and /verif and applies the patch there,
  2. runs demo.py against /repo (must exit 0) and against the copy (must exit 1),
  3. runs `./check <ID> --tier quick` (optionally further checks: --also C03,C05) with VP_REPO pointing at
     the copy, without touching evidence or the replay directory,
  4. removes the copy.
usage: selftest/run_seeded.py [ID[/k] ...] [--also ID,ID] [--tier quick|thorough] [--jobs N]
Writes seeded/RESULTS.json and seeded/RESULTS.md when run without selectors (or with --merge: only the selected rows are replaced)."""
import glob, json, os, shutil, subprocess, sys, tempfile, time

VERIF = os.path.dirname(os.path.dirname(os.path.abspath(__file__)))
PY = '/venv/bin/python'


def sh(cmd, env=None, cwd=None, timeout=7200):
    p = subprocess.run(cmd, shell=isinstance(cmd, str), env=env, cwd=cwd, capture_output=True, text=True, timeout=timeout)
    return p.returncode, p.stdout + p.stderr


def run_one(d, also, tier):
    prop, k = d.rstrip('/').split('/')[-2:]
    meta = json.load(open(os.path.join(d, 'meta.json')))
    scratch = tempfile.mkdtemp(prefix='vp_seed_')
    res = dict(id='%s/%s' % (prop, k), title=meta.get('title', ''), checks={})
    try:
        sh('rsync -a --exclude .git --exclude __pycache__ /repo/ %s/' % scratch)
        rc, out = sh('patch -p1 -s < %s' % os.path.join(d, 'patch.diff'), cwd=scratch)
        if rc != 0:
            res['error'] = 'patch does not apply: ' + out[-300:]
            return res
        env0 = dict(os.environ, PYTHONPATH='/repo', PYTHONDONTWRITEBYTECODE='1', MPLBACKEND='Agg')
        env1 = dict(env0, PYTHONPATH=scratch)
        demo = os.path.join(d, 'demo.py')
        if os.path.exists(demo):
            neutral = tempfile.mkdtemp(prefix='vp_seed_cwd_')      # demos must find exactpack through PYTHONPATH only
            try:
                res['demo_clean'] = sh([PY, '-W', 'ignore', demo], env=env0, cwd=neutral, timeout=1800)[0]
                res['demo_patched'] = sh([PY, '-W', 'ignore', demo], env=env1, cwd=neutral, timeout=1800)[0]
            finally:
                shutil.rmtree(neutral, ignore_errors=True)
        for cid in [prop] + [a for a in also if a != prop]:
            t0 = time.time()
            env = dict(os.environ, VP_REPO=scratch, VP_REPLAY_DIR=os.path.join(scratch, '.replays'))
            rc, out = sh([os.path.join(VERIF, 'check'), cid, '--tier', tier, '--no-evidence'], env=env, cwd=VERIF)
            lines = [l for l in out.splitlines() if l.startswith(('FAIL', 'VIOLATION', 'HARNESS', 'INCONCLUSIVE'))]
            res['checks'][cid] = dict(exit=rc, wall=round(time.time() - t0, 1), first=[l[:300] for l in lines[:3]],
                                      n_violations=sum(l.startswith('VIOLATION') for l in lines))
    finally:
        shutil.rmtree(scratch, ignore_errors=True)
    return res


def main():
    args = sys.argv[1:]
    also, tier, jobs = [], 'quick', 1
    merge = False
    sel = []
    out_file, merge_from = None, []
    while args:
        a = args.pop(0)
        if a == '--also':
            also = args.pop(0).split(',')
        elif a == '--tier':
            tier = args.pop(0)
        elif a == '--jobs':
            jobs = int(args.pop(0))
        elif a == '--merge':
            merge = True
        elif a == '--out':                       # also dump this run's rows to a file (parallel runs, merged afterwards with --merge-from)
            out_file = args.pop(0)
        elif a == '--merge-from':                # take rows from files written with --out instead of running anything
            merge_from.append(args.pop(0))
        else:
            sel.append(a)
    dirs = sorted(os.path.dirname(p) for p in glob.glob(os.path.join(VERIF, 'seeded', 'C*', '*', 'patch.diff')))
    if sel:
        dirs = [d for d in dirs if any(('/' + s + '/') in (d + '/') or d.endswith('/' + s) for s in sel)]
    results = []
    if merge_from:
        for f in merge_from:
            results += json.load(open(f))
        dirs, merge, sel = [], True, ['-']
    for d in dirs:
        r = run_one(d, also, tier)
        results.append(r)
        own = r['checks'].get(r['id'].split('/')[0], {})
        print(r['id'], 'demo', r.get('demo_clean'), r.get('demo_patched'), 'check exit', own.get('exit'), own.get('wall'), (own.get('first') or [''])[0][:160], r.get('error', ''), flush=True)
    if out_file:
        json.dump(results, open(out_file, 'w'), indent=1)
    if merge and sel:
        # keep the earlier results of everything that was not selected this time
        old = json.load(open(os.path.join(VERIF, 'seeded', 'RESULTS.json'))) if os.path.exists(os.path.join(VERIF, 'seeded', 'RESULTS.json')) else []
        done = {r['id'] for r in results}
        results = sorted([r for r in old if r['id'] not in done] + results, key=lambda r: r['id'])
    if not sel or merge:
        json.dump(results, open(os.path.join(VERIF, 'seeded', 'RESULTS.json'), 'w'), indent=1)
        with open(os.path.join(VERIF, 'seeded', 'RESULTS.md'), 'w') as f:
            f.write('# Registered checks against the seeded changes (generated by selftest/run_seeded.py)\n\n')
            f.write('| change | title | demo clean/patched | own check (exit, s) | first report |\n|---|---|---|---|---|\n')
            for r in results:
                own = r['checks'].get(r['id'].split('/')[0], {})
                f.write('| %s | %s | %s/%s | %s, %s | %s |\n' % (r['id'], r['title'].replace('|', '/'), r.get('demo_clean'), r.get('demo_patched'), own.get('exit'), own.get('wall'),
                                                             ((own.get('first') or [r.get('error', '')])[0][:200]).replace('|', '/')))
            det = sum(1 for r in results if r['checks'].get(r['id'].split('/')[0], {}).get('exit') == 1)
            f.write('\ndetected by the property\'s own quick check: %d / %d\n' % (det, len(results)))


if __name__ == '__main__':
    main()
