#!/bin/bash
# usage: selftest/mutant.sh <patch-file|-e 'sed-expr' file> -- <check args...>
# Copies /repo to a scratch dir outside /repo and /verif, applies the change, runs ./check against the
# copy (VP_REPO) without touching evidence, prints the exit code and removes the copy.
set -u
HERE="$(cd "$(dirname "${BASH_SOURCE[0]}")/.." && pwd)"
D=$(mktemp -d /tmp/vp_mut_XXXXXX)
trap 'rm -rf "$D"' EXIT
rsync -a --exclude .git --exclude '__pycache__' /repo/ "$D/"
if [ "$1" = "-e" ]; then
  sed -i -E "$2" "$D/$3" || exit 3
  if diff -q "$D/$3" "/repo/$3" >/dev/null; then echo "MUTANT DID NOT CHANGE THE FILE"; exit 3; fi
  shift 3
elif [ "$1" = "-R" ]; then
  (cd "$D" && patch -R -p1 -s < "$2") || exit 3
  shift 2
else
  (cd "$D" && patch -p1 -s < "$1") || exit 3
  shift 1
fi
[ "$1" = "--" ] && shift
cd "$HERE"
VP_REPLAY_DIR="$D/.replays" VP_REPO="$D" ./check "$@" --no-evidence 2>&1 | grep -E "^(VIOLATION|FAIL|KNOWN|HARNESS|C[0-9]+ tier)" | cut -c1-260 | head -${MUT_LINES:-8}
echo "exit=${PIPESTATUS[0]}"
