"""Small strategy helpers shared by all recipes."""
import math
from hypothesis import strategies as st


def logu(lo, hi):
    """log-uniform positive float in [lo, hi]"""
    return st.floats(math.log(lo), math.log(hi), allow_nan=False).map(lambda v: float(math.exp(v)))


def uni(lo, hi):
    return st.floats(lo, hi, allow_nan=False, allow_infinity=False).map(float)


def pos(default=1.0, lo=None, hi=None, decades=1.5):
    """positive parameter: the default, a round number, or log-uniform around the default"""
    lo = default * 10 ** (-decades) if lo is None else lo
    hi = default * 10 ** (decades) if hi is None else hi
    return st.one_of(st.just(float(default)), logu(lo, hi))


def pow2(lo=-6, hi=6):
    return st.integers(lo, hi).map(lambda k: float(2.0 ** k))


GAMMAS = [5.0 / 3.0, 1.4, 3.0, 2.0, 1.2, 1.1]


def gamma_gt1(lo=1.05, hi=3.0):
    return st.one_of(st.sampled_from(GAMMAS), uni(lo, hi))


def geometry(allowed=(1, 2, 3)):
    return st.sampled_from(list(allowed))


def fractions(n_min=1, n_max=8, lo=0.0, hi=1.0):
    return st.lists(uni(lo, hi), min_size=n_min, max_size=n_max)
