"""CLI:  python -m vp.run <ID> [--tier quick|thorough] [--replay FILE] [--only OBL] [--jobs N]"""
import os, sys, json, time, argparse, glob, traceback, multiprocessing as mp
from collections import Counter

from . import core, registry
from .core import VERIF, EXIT_OK, EXIT_VIOLATION, EXIT_HARNESS


def _load_replay(path):
    with open(path) as f:
        return json.load(f)


def replay_case(prop, rep):
    """Re-execute one saved case without Hypothesis.  Returns (new_fails, known_fails)."""
    obl = registry.get_obligation(prop, rep['obligation'])
    coll = core.Collector(prop, obl, 'quick')
    out = coll.evaluate(rep['case'])
    if coll.harness_errors:
        raise core.HarnessError('replay harness error: ' + coll.harness_errors[0]['tb'])
    new, known = [], []
    if out is not None:
        for f in out.fails:
            kid = core.match_known(prop, obl.name, rep['case'], f)
            (known if kid else new).append((kid, f))
    return new, known


def write_replay(prop, obl_name, case, fail, seed, tier, tag='viol'):
    d = os.path.join(os.environ.get('VP_REPLAY_DIR') or os.path.join(VERIF, 'replays'), prop)
    os.makedirs(d, exist_ok=True)
    h = core.case_hash(dict(case=case, rel=fail['relation']))
    path = os.path.join(d, '%s-%s-%s.json' % (tag, obl_name.replace('/', '_'), h))
    with open(path, 'w') as f:
        json.dump(dict(property=prop, obligation=obl_name, case=case, failure=fail,
                       seed=seed, tier=tier), f, indent=1, sort_keys=True)
    return os.path.relpath(path, VERIF) if path.startswith(VERIF + os.sep) else path


def main(argv=None):
    ap = argparse.ArgumentParser()
    ap.add_argument('prop')
    ap.add_argument('--tier', default=os.environ.get('VERIF_TIER', 'quick'), choices=['quick', 'thorough'])
    ap.add_argument('--replay')
    ap.add_argument('--only', default=None, help='comma separated obligation names (debug)')
    ap.add_argument('--jobs', type=int, default=int(os.environ.get('VERIF_JOBS', '16')))
    ap.add_argument('--scale', type=float, default=float(os.environ.get('VERIF_SCALE', '1')),
                    help='multiply case counts (debug)')
    ap.add_argument('--no-evidence', action='store_true')
    a = ap.parse_args(argv)
    prop = a.prop.upper()
    seed = int(os.environ.get('VERIF_SEED', '1'))
    t0 = time.time()
    try:
        core.worker_init()
        obls = registry.obligations(prop)
        meta = registry.meta(prop)
    except Exception:
        traceback.print_exc()
        print('HARNESS-ERROR property=%s cannot load obligations' % prop)
        return EXIT_HARNESS

    # ---------------------------------------------------------------- replay mode
    if a.replay:
        try:
            rep = _load_replay(a.replay if os.path.isabs(a.replay) else os.path.join(VERIF, a.replay)
                               if not os.path.exists(a.replay) else a.replay)
            new, known = replay_case(prop, rep)
        except Exception:
            traceback.print_exc()
            return EXIT_HARNESS
        for kid, f in known:
            print('KNOWN-FINDING: property=%s %s [%s]' % (prop, kid, f['relation']))
        for _, f in new:
            print('FAIL %s %s %s' % (f['relation'], f['regime'], json.dumps(f['detail'])[:400]))
        if new:
            print('VIOLATION property=%s replay=%s' % (prop, a.replay))
            return EXIT_VIOLATION
        print('replay holds')
        return EXIT_OK

    only = set(a.only.split(',')) if a.only else None
    violations = []      # (obl, key, case, fail)
    known_seen = Counter()
    known_lines = {}
    harness = []

    # ---------------------------------------------------------------- committed replays
    kf = core.load_known()
    n_replayed = 0
    for e in kf.get('findings', []):
        if e['property'] != prop or e.get('status', 'known') != 'known':
            continue
        known_lines.setdefault(e['id'], e)
        w = e.get('witness')
        if not w:
            continue
        try:
            rep = _load_replay(os.path.join(VERIF, w))
            new, known = replay_case(prop, rep)
            n_replayed += 1
        except Exception:
            harness.append('witness %s: %s' % (w, traceback.format_exc()[-1500:]))
            continue
        if any(k == e['id'] for k, _ in known):
            known_seen[e['id']] += 1
        for _, f in new:
            violations.append((rep['obligation'], (rep['case'].get('solver', ''), f['relation'], f['regime']), rep['case'], f))
    for path in sorted(glob.glob(os.path.join(VERIF, 'replays', prop, 'regress-*.json'))):
        try:
            rep = _load_replay(path)
            new, known = replay_case(prop, rep)
            n_replayed += 1
        except Exception:
            harness.append('regress %s: %s' % (path, traceback.format_exc()[-1500:]))
            continue
        for kid, f in known:
            known_seen[kid] += 1
        for _, f in new:
            violations.append((rep['obligation'], (rep['case'].get('solver', ''), f['relation'], f['regime']), rep['case'], f))

    # ---------------------------------------------------------------- generated search
    tasks = []
    for o in obls:
        if only and o.name not in only:
            continue
        if o.n[a.tier] <= 0:
            continue          # obligation not part of this tier
        n = max(1, int(round(o.n[a.tier] * a.scale)))
        shards = max(1, min(o.max_shards, a.jobs, n // max(1, o.min_per_shard)))
        per = [n // shards + (1 if i < n % shards else 0) for i in range(shards)]
        for i, k in enumerate(per):
            if k > 0:
                tasks.append((prop, o.name, i, k, seed, a.tier, o.budget_s[a.tier]))
    cost = {o.name: getattr(o, 'cost', 1.0) for o in obls}
    tasks.sort(key=lambda t: -cost[t[1]] * t[3])

    results = []
    timed_out = []
    if tasks:
        ctx = mp.get_context('spawn')
        # watchdog: a shard that is still running long after every per-obligation budget has expired
        # (a single solver call that never returns) is abandoned and reported as inconclusive
        t_pool = time.time()
        hard = t_pool + 2.0 * max(t[6] for t in tasks) + 120
        pool = ctx.Pool(min(a.jobs, len(tasks)))
        try:
            pending = [(t, pool.apply_async(core.run_shard, (t,))) for t in tasks]
            while pending and time.time() < hard:
                still = []
                for t, ar in pending:
                    if ar.ready():
                        results.append(ar.get())
                    elif time.time() > t_pool + 2.0 * t[6] + 120:
                        timed_out.append(t)          # this obligation's own budget is long gone (expensive obligations are started first)
                    else:
                        still.append((t, ar))
                pending = still
                if pending:
                    time.sleep(0.2)
            timed_out += [t for t, _ in pending]
        finally:
            pool.terminate()
            pool.join()

    per_obl = {}
    for r in results:
        if 'fatal' in r:
            harness.append('%s shard %s: %s' % (r['obligation'], r['shard'], r['fatal']))
            continue
        for he in r['harness_errors']:
            harness.append('%s: %s\ncase=%s' % (r['obligation'], he['tb'], json.dumps(he['case'])[:600]))
        d = per_obl.setdefault(r['obligation'], dict(evals=0, checks=0, nontrivial=set(), labels=Counter(),
                                                     rejected=Counter(), buckets={}, samples=[], max_metric=0.0,
                                                     wall=0.0, inconclusive=False, shards=0))
        d['evals'] += r['evals']
        d['checks'] += r['checks']
        d['nontrivial'].update(r['nontrivial'])
        d['labels'].update(r['labels'])
        d['rejected'].update(r['rejected'])
        d['samples'].extend(r['samples'][:2])
        d['max_metric'] = max(d['max_metric'], r['max_metric'])
        d['wall'] = max(d['wall'], r['wall'])
        d['inconclusive'] |= r['inconclusive']
        d['shards'] += 1
        for b in r['buckets']:
            k = tuple(b['key'])
            bb = d['buckets'].setdefault(k, dict(count=0, cases=[]))
            bb['count'] += b['count']
            bb['cases'] = sorted(bb['cases'] + [tuple(c) for c in b['cases']], key=lambda c: (c[0], c[1]))[:3]

    n_known_gen = Counter()
    shrink_deadline = time.time() + (90 if a.tier == 'quick' else 900)
    for oname, d in sorted(per_obl.items()):
        obl = registry.get_obligation(prop, oname)
        for k, b in sorted(d['buckets'].items(), key=lambda kv: str(kv[0])):
            kid = k[3]
            if kid:
                known_seen[kid] += b['count']
                n_known_gen[kid] += b['count']
                e = known_lines.get(kid, {})
                # developer aid (never active in registered commands): create a missing witness file
                if os.environ.get('VP_WRITE_WITNESS') and e.get('witness') and \
                        not os.path.exists(os.path.join(VERIF, e['witness'])):
                    c = b['cases'][0]
                    os.makedirs(os.path.dirname(os.path.join(VERIF, e['witness'])), exist_ok=True)
                    with open(os.path.join(VERIF, e['witness']), 'w') as f:
                        json.dump(dict(property=prop, obligation=oname, case=c[2], failure=c[3], seed=seed,
                                       tier=a.tier), f, indent=1, sort_keys=True)
                continue
            c = b['cases'][0]
            left = shrink_deadline - time.time()
            if len(violations) < 12 and left > 5:
                try:
                    c = core.shrink_bucket(prop, obl, k, c, budget_s=min(left, 30 if a.tier == 'quick' else 240))
                except BaseException:
                    pass
            violations.append((oname, k[:3], c[2], c[3]))

    # ---------------------------------------------------------------- report
    total_evals = sum(d['evals'] for d in per_obl.values())
    nontrivial = set()
    for oname, d in per_obl.items():
        nontrivial.update(oname + ':' + h for h in d['nontrivial'])
    for kid in sorted(known_lines):
        if known_seen.get(kid):
            print('KNOWN-FINDING: property=%s %s: %s' % (prop, kid, known_lines[kid].get('what', '')))
        else:
            print('note: listed finding %s did not reproduce in this run' % kid)

    seen_paths = set()
    viol_records = []
    for oname, key, case, fail in violations:
        path = write_replay(prop, oname, case, fail, seed, a.tier)
        viol_records.append(dict(obligation=oname, key=list(key), replay=path, failure=fail))
        if path in seen_paths:
            continue
        seen_paths.add(path)
        print('FAIL obligation=%s solver=%s relation=%s regime=%s detail=%s' % (
            oname, key[0], key[1], key[2], json.dumps(fail.get('detail'))[:500]))
        print('VIOLATION property=%s replay=%s' % (prop, path))

    wall = time.time() - t0
    samples = []
    for oname, d in sorted(per_obl.items()):
        for s in d['samples'][:2]:
            samples.append(dict(obligation=oname, case=s[1], outcome=s[2]))
    obl_table = {}
    for oname, d in sorted(per_obl.items()):
        obl_table[oname] = dict(cases=d['evals'], scalar_relations_checked=d['checks'],
                                distinct_nontrivial=len(d['nontrivial']),
                                labels=dict(sorted(d['labels'].items(), key=lambda kv: -kv[1])[:60]),
                                rejected_loudly=dict(d['rejected']),
                                max_error_over_tolerance=d['max_metric'],
                                inconclusive_budget_hit=d['inconclusive'], shards=d['shards'],
                                slowest_shard_s=round(d['wall'], 2),
                                failing_buckets=[dict(key=list(k), count=b['count']) for k, b in d['buckets'].items()])
    ev = dict(property_id=prop, tier=a.tier, seed=seed, level='exploration',
              coverage=dict(evaluations=int(total_evals + n_replayed),
                            distinct_nontrivial=int(len(nontrivial)),
                            rule=meta.get('rule', ''),
                            samples=samples[:40],
                            technique=meta.get('technique', ''),
                            obligations_table=obl_table,
                            committed_replays_rerun=n_replayed,
                            known_findings_seen={k: int(v) for k, v in known_seen.items()},
                            generated_cases_matching_known_findings={k: int(v) for k, v in n_known_gen.items()},
                            violation_records=viol_records,
                            harness_errors=len(harness), shards_abandoned_by_watchdog=len(timed_out)),
              assumptions=meta.get('assumptions', []),
              wall_s=round(wall, 2), violations=len(seen_paths))
    if not a.no_evidence and not only:
        os.makedirs(os.path.join(VERIF, 'evidence'), exist_ok=True)
        with open(os.path.join(VERIF, 'evidence', prop + '.json'), 'w') as f:
            json.dump(ev, f, indent=1, sort_keys=True)

    print('%s tier=%s seed=%d cases=%d nontrivial=%d violations=%d known=%s wall=%.1fs' % (
        prop, a.tier, seed, total_evals, len(nontrivial), len(seen_paths), dict(known_seen), wall))
    for oname, d in sorted(per_obl.items()):
        print('  %-28s cases=%-6d nontriv=%-6d maxratio=%-9.3g rejected=%d%s  %.1fs' % (
            oname, d['evals'], len(d['nontrivial']), d['max_metric'], sum(d['rejected'].values()),
            ' INCONCLUSIVE(budget)' if d['inconclusive'] else '', d['wall']))
    for t in timed_out:
        print('INCONCLUSIVE obligation=%s shard=%d abandoned by the watchdog (a call did not return within the budget)' % (t[1], t[2]))
    if harness:
        for h in harness[:5]:
            print('HARNESS-ERROR', h, file=sys.stderr)
        print('HARNESS-ERROR property=%s count=%d (exit 2; not a violation)' % (prop, len(harness)))
        return EXIT_HARNESS
    if seen_paths:
        return EXIT_VIOLATION
    return EXIT_OK


def _main_with_scratch():
    # per-run scratch directory (fresh-interpreter reference cache of C06 etc.), removed when the run ends
    import shutil, tempfile
    d = tempfile.mkdtemp(prefix='vp_scratch_')
    os.environ['VP_SCRATCH'] = d
    try:
        return main()
    finally:
        shutil.rmtree(d, ignore_errors=True)


if __name__ == '__main__':
    sys.exit(_main_with_scratch())
