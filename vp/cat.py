"""Solver catalogue: constructing solvers from JSON-able cases and
Hypothesis recipes (parameter / time / point strategies) per solver family.

A *case* is a plain dict: {'solver': dotted path, 'params': {...}, 't': float,
'x': [...], plus recipe-specific keys}.  make_solver(case) builds the public
solver object; run(case) calls it."""
import importlib, math, io, contextlib
import numpy as np
from hypothesis import strategies as st, assume

from .strat import logu, uni, pos, gamma_gt1, geometry, GAMMAS
from . import cogcat

_devnull = io.StringIO()


def cls_of(path):
    mod, name = path.rsplit('.', 1)
    return getattr(importlib.import_module(mod), name)


def quiet(fn, *a, **k):
    """call ExactPack code with its print() chatter suppressed"""
    buf = io.StringIO()
    with contextlib.redirect_stdout(buf):
        return fn(*a, **k)


EOS_PATH = 'exactpack.solvers.nohblackboxeos.equations_of_state.eos_library.'


def make_eos(spec):
    """spec = {'cls': 'ideal_gas_eos', 'args': {...}}"""
    c = cls_of(EOS_PATH + spec['cls'])
    return c(**spec.get('args', {}))


def make_solver(case):
    path = case['solver']
    c = cls_of(path)
    p = dict(case.get('params', {}))
    if 'nohblackboxeos' in path:
        eos = make_eos(case['eos'])
        ic = dict(case['ic'])
        if path.endswith('.NohBlackBoxEos'):
            s = quiet(c, eos, ic, **p)
        else:
            ic.pop('symmetry', None)
            s = quiet(c, eos, ic)
        if case.get('guess') is not None:
            s.set_new_solver_initial_guess(list(case['guess']))
        return s
    return quiet(c, **p)


def run(case, solver=None, x=None, t=None):
    s = make_solver(case) if solver is None else solver
    xx = np.asarray(case['x'] if x is None else x, dtype=float)
    tt = case['t'] if t is None else t
    return quiet(s, xx, tt)


# ---------------------------------------------------------------- Noh family
NOH = 'exactpack.solvers.noh.noh1.'
NOH2 = 'exactpack.solvers.noh2.noh2.'


@st.composite
def noh_case(draw, n_min=1, n_max=6, wrappers=True):
    g = draw(gamma_gt1())
    geom = draw(geometry())
    if wrappers and draw(st.integers(0, 4)) == 0:
        path = NOH + {1: 'Planar', 2: 'Cylindrical', 3: 'Spherical'}[geom] + 'Noh'
        params = dict(gamma=g)
        rho0, u0 = 1.0, -1.0
    else:
        path = NOH + 'Noh'
        rho0, u0 = draw(pos(1.0)), -draw(pos(1.0))
        params = dict(geometry=geom, gamma=g, rho0=rho0, u0=u0)
    t = draw(logu(0.01, 10.0))
    rs = abs(u0) * t * (g - 1) / 2
    fr = draw(st.lists(logu(0.02, 20.0), min_size=n_min, max_size=n_max))
    x = [rs * f for f in fr if abs(f - 1) > 1e-6] or [rs * 0.5]
    return dict(solver=path, params=params, t=t, x=x, geometry=geom, gamma=g, rho0=rho0, u0=u0, shock=rs)


@st.composite
def noh2_case(draw, n_min=1, n_max=6, wrappers=True):
    g = draw(gamma_gt1())
    geom = draw(geometry())
    rho0, e0 = draw(pos(1.0)), draw(pos(1.0))
    which = draw(st.sampled_from(['Noh2', 'wrap', 'Noh2Cog'] if wrappers else ['Noh2', 'Noh2Cog']))
    if which == 'wrap':
        path = NOH2 + {1: 'Planar', 2: 'Cylindrical', 3: 'Spherical'}[geom] + 'Noh2'
        params = dict(gamma=g, rho0=rho0, e0=e0)
    elif which == 'Noh2Cog':
        path = 'exactpack.solvers.noh2.noh2_cog.Noh2Cog'
        params = dict(geometry=geom, gamma=g, rho0=rho0, e0=e0)
    else:
        path = NOH2 + 'Noh2'
        params = dict(geometry=geom, gamma=g, rho0=rho0, e0=e0)
    t = draw(uni(0.01, 0.95))
    x = draw(st.lists(logu(0.01, 10.0), min_size=n_min, max_size=n_max))
    return dict(solver=path, params=params, t=t, x=x, geometry=geom, gamma=g)


# ---------------------------------------------------------------- Sedov
SEDOV = 'exactpack.solvers.sedov.sedov.Sedov'


def sedov_omega_singular(geom, gamma):
    # v2 == vstar  <=>  4/((k+2-w)(g+1)) = 2/((g-1)k+2)
    return geom + 2 - 2 * ((gamma - 1) * geom + 2) / (gamma + 1)


@st.composite
def sedov_params(draw, types=('standard', 'vacuum'), wrappers=True):
    geom = draw(geometry())
    g = draw(st.one_of(st.sampled_from([1.4, 5.0 / 3.0, 2.0, 1.2, 3.0]), uni(1.1, 3.0)))
    kind = draw(st.sampled_from(list(types)))
    ws = sedov_omega_singular(geom, g)
    if kind == 'standard':
        hi = min(ws - 0.05, geom - 0.05)
        omega = 0.0 if (hi <= 0 or draw(st.booleans())) else draw(uni(0.0, hi))
        if ws <= 0.05:
            kind = 'vacuum'
    if kind == 'vacuum':
        lo = max(ws + 0.05, 0.0)
        assume(lo < geom - 0.05)
        omega = draw(uni(lo, geom - 0.05))
    if kind == 'singular':
        assume(0 <= ws < geom)
        omega = ws
    # keep away from the omega2 / omega3 removable singularities
    d2 = 2.0 * (g - 1) + geom - g * omega
    d3 = geom * (2.0 - g) - omega
    assume(abs(d2) > 0.02 and abs(d3) > 0.02)
    if wrappers and omega == 0.0 and draw(st.integers(0, 5)) == 0:
        path = 'exactpack.solvers.sedov.' + {1: 'Planar', 2: 'Cylindrical', 3: 'Spherical'}[geom] + 'Sedov'
        params = dict(gamma=g)
        rho0 = 1.0
        eblast = {1: 0.0673185, 2: 0.311357, 3: 0.851072}[geom]
    else:
        path = SEDOV
        rho0, eblast = draw(pos(1.0)), draw(pos(0.851072))
        params = dict(geometry=geom, gamma=g, rho0=rho0, omega=omega, eblast=eblast)
    return dict(solver=path, params=params, geometry=geom, gamma=g, omega=omega, kind=kind, rho0=rho0, eblast=eblast)


# ---------------------------------------------------------------- 1-D Riemann
RIEMANN_IG = 'exactpack.solvers.riemann.ep_riemann.IGEOS_Solver'
RIEMANN_GEN = 'exactpack.solvers.riemann.ep_riemann.GenEOS_Solver'


def _csnd(p, r, g):
    return math.sqrt(g * p / r)


def riemann_boundaries(pl, rl, ul, gl, pr, rr, gr):
    """Gottlieb-Groth classification velocities for u_r (independent re-derivation):
    returns (u_lo, u_hi, u_vac): u_r <= u_lo: SCS; u_lo < u_r <= u_hi: one shock one
    rarefaction; u_hi < u_r < u_vac: RCR; beyond u_vac: vacuum."""
    al, ar = _csnd(pl, rl, gl), _csnd(pr, rr, gr)

    def fk(p, pk, rk, gk, ak):   # Toro's f_K(p)
        if p > pk:
            A = 2.0 / ((gk + 1) * rk)
            B = (gk - 1) / (gk + 1) * pk
            return (p - pk) * math.sqrt(A / (p + B))
        return 2 * ak / (gk - 1) * ((p / pk) ** ((gk - 1) / (2 * gk)) - 1)
    pmin, pmax = min(pl, pr), max(pl, pr)
    # u_r - u_l = -(f_l(p*) + f_r(p*)); p* = pmax <=> du = -(fl(pmax)+fr(pmax))
    du_hi_p = -(fk(pmax, pl, rl, gl, al) + fk(pmax, pr, rr, gr, ar))   # p* = pmax: boundary SCS / mixed
    du_lo_p = -(fk(pmin, pl, rl, gl, al) + fk(pmin, pr, rr, gr, ar))   # p* = pmin: boundary mixed / RCR
    du_vac = 2 * al / (gl - 1) + 2 * ar / (gr - 1)
    return ul + du_hi_p, ul + du_lo_p, ul + du_vac


def star_state(pl, rl, ul, gl, pr, rr, ur, gr):
    """Independent exact Riemann star state (Toro) by bisection on p*."""
    al, ar = _csnd(pl, rl, gl), _csnd(pr, rr, gr)

    def fk(p, pk, rk, gk, ak):
        if p > pk:
            A = 2.0 / ((gk + 1) * rk)
            B = (gk - 1) / (gk + 1) * pk
            return (p - pk) * math.sqrt(A / (p + B))
        return 2 * ak / (gk - 1) * ((p / pk) ** ((gk - 1) / (2 * gk)) - 1)

    def F(p):
        return fk(p, pl, rl, gl, al) + fk(p, pr, rr, gr, ar) + (ur - ul)
    lo, hi = 1e-14 * min(pl, pr), max(pl, pr)
    while F(hi) < 0:
        hi *= 2
        if hi > 1e30:
            return None
    if F(lo) > 0:
        return None
    for _ in range(200):
        mid = 0.5 * (lo + hi)
        if F(mid) > 0:
            hi = mid
        else:
            lo = mid
    p = 0.5 * (lo + hi)
    u = 0.5 * (ul + ur) + 0.5 * (fk(p, pr, rr, gr, ar) - fk(p, pl, rl, gl, al))
    return p, u


def riemann_wave_speeds(pl, rl, ul, gl, pr, rr, ur, gr):
    """(pattern, p*, u*, [wave speeds left..right], rho*_l, rho*_r) from the independent solver"""
    ss = star_state(pl, rl, ul, gl, pr, rr, ur, gr)
    if ss is None:
        return None
    p, u = ss
    al, ar = _csnd(pl, rl, gl), _csnd(pr, rr, gr)
    sp = []
    if p > pl:
        pat = 'S'
        rxl = rl * ((p / pl) + (gl - 1) / (gl + 1)) / ((gl - 1) / (gl + 1) * (p / pl) + 1)
        sp.append(ul - al * math.sqrt((gl + 1) / (2 * gl) * p / pl + (gl - 1) / (2 * gl)))
    else:
        pat = 'R'
        rxl = rl * (p / pl) ** (1 / gl)
        sp += [ul - al, u - al * (p / pl) ** ((gl - 1) / (2 * gl))]
    sp.append(u)
    if p > pr:
        pat += 'CS'
        rxr = rr * ((p / pr) + (gr - 1) / (gr + 1)) / ((gr - 1) / (gr + 1) * (p / pr) + 1)
        sp.append(ur + ar * math.sqrt((gr + 1) / (2 * gr) * p / pr + (gr - 1) / (2 * gr)))
    else:
        pat += 'CR'
        rxr = rr * (p / pr) ** (1 / gr)
        sp += [u + ar * (p / pr) ** ((gr - 1) / (2 * gr)), ur + ar]
    return pat, p, u, sp, rxl, rxr


@st.composite
def riemann_states(draw, equal_gamma=None, allow_boost=True, min_pstar=1e-6):
    """pattern-balanced left/right states for the ideal-gas problem.  Keeps
    p* <= ~8 max(pl,pr) (the solver's bracket is [0, 10 max p]) and stays away from vacuum."""
    rl, rr = draw(pos(1.0, decades=1.2)), draw(pos(0.125, decades=1.2))
    pl, pr = draw(pos(1.0, decades=1.5)), draw(pos(0.1, decades=1.5))
    if draw(st.booleans()):          # the defaults favour pl > pr: swap sides half of the time
        rl, rr, pl, pr = rr, rl, pr, pl
    if draw(st.integers(0, 9)) == 0:
        pr = pl
    eq = draw(st.booleans()) if equal_gamma is None else equal_gamma
    gl = draw(st.one_of(st.sampled_from([1.4, 5.0 / 3.0, 3.0, 1.2]), uni(1.1, 3.0)))
    gr = gl if eq else draw(st.one_of(st.sampled_from([1.4, 5.0 / 3.0, 3.0, 1.2]), uni(1.1, 3.0)))
    ul = 0.0 if (not allow_boost or draw(st.integers(0, 3)) == 0) else draw(uni(-3.0, 3.0)) * _csnd(pl, rl, gl)
    u_lo, u_hi, u_vac = riemann_boundaries(pl, rl, ul, gl, pr, rr, gr)
    al, ar = _csnd(pl, rl, gl), _csnd(pr, rr, gr)
    target = draw(st.sampled_from(['SCS', 'MIX', 'MIX', 'RCR', 'STILL', 'EDGE']))
    f = draw(uni(0.03, 0.97))
    if target == 'EDGE':
        # next to a boundary between two wave patterns (one wave weak), on either side of it: where a slip in the pattern selection shows
        ub = draw(st.sampled_from([u_lo, u_hi]))
        ur = ub + draw(st.sampled_from([-1.0, 1.0])) * draw(logu(2e-3, 0.25)) * (u_hi - u_lo)
    elif target == 'STILL':
        ur = ul
    elif target == 'SCS':
        # bound the shock strength: p*<~8 pmax: go at most ~2.2 c below u_lo
        ur = u_lo - f * 2.0 * max(al, ar)
    elif target == 'MIX':
        ur = u_lo + f * (u_hi - u_lo)
    else:
        # (the general-EOS solver is only driven with p* >= 0.05 max p, see below: a weaker double rarefaction keeps that pattern represented)
        ur = u_hi + f * (0.8 if min_pstar < 1e-3 else 0.3) * (u_vac - u_hi)
    w = riemann_wave_speeds(pl, rl, ul, gl, pr, rr, ur, gr)
    assume(w is not None)
    pat, ps, us, sp, rxl, rxr = w
    assume(ps < 8.0 * max(pl, pr))
    # (the general-EOS solver tabulates each rarefaction curve on a uniform pressure grid from p0 down to 0: a star
    #  pressure far below the initial pressure falls between its first few samples, so it is only driven with p* >= 0.05 p0)
    assume(ps > min_pstar * (min(pl, pr) if min_pstar < 1e-3 else max(pl, pr)))
    return dict(rl=rl, ul=ul, pl=pl, gl=gl, rr=rr, ur=ur, pr=pr, gr=gr), pat, ps, us, sp


@st.composite
def riemann_case(draw, solver='ig', equal_gamma=None, n_min=1, n_max=8, allow_boost=True):
    stt, pat, ps, us, sp = draw(riemann_states(equal_gamma=equal_gamma, allow_boost=allow_boost,
                                                  min_pstar=1e-6 if solver == 'ig' else 0.05))
    xd0 = draw(st.one_of(st.just(0.5), uni(-2.0, 2.0)))
    t = draw(logu(0.02, 2.0))
    span = max(abs(s) for s in sp) * t
    span = max(span, 1e-3)
    L = span * (1.3 + draw(uni(0.0, 2.0)))
    params = dict(stt, xmin=xd0 - L, xd0=xd0, xmax=xd0 + L)
    fr = draw(st.lists(uni(-1.25, 1.25), min_size=n_min, max_size=n_max))
    x = [xd0 + f * span for f in fr]
    path = RIEMANN_IG if solver == 'ig' else RIEMANN_GEN
    if solver != 'ig':
        params.update(num_int_pts=2001, num_x_pts=4001)
    return dict(solver=path, params=params, t=t, x=x, pattern=pat, pstar=ps, ustar=us, speeds=sp, span=span)


# JWL data (Shyue / Lee test problems of the example script), perturbed
JWL_SHYUE = dict(rl=1.7, pl=10.0, ul=0.0, rr=1.0, pr=0.5, ur=0.0, gl=1.25, gr=1.25,
                 A=8.545, B=0.205, R1=4.6, R2=1.35, r0=1.84, e0=0.0)
JWL_LEE = dict(rl=0.9525, pl=1.0, ul=0.0, rr=3.81, pr=2.0, ur=0.0, gl=1.8938, gr=1.8938,
               A=632.1, B=-0.04472, R1=11.3, R2=1.13, r0=1.905, e0=0.0)


# ---------------------------------------------------------------- EHEP
EHEP = 'exactpack.solvers.ehep.ehep.EscapeOfHEProducts'


@st.composite
def ehep_params(draw):
    D = draw(pos(0.85))
    rho_0 = draw(pos(1.6))
    up = draw(st.one_of(st.just(0.0), uni(0.0, 0.9))) * D / 4.0
    xt = draw(pos(1.0))
    xmax = xt * draw(uni(3.0, 30.0))
    tmax = xt / D * draw(uni(5.0, 40.0))
    return dict(D=D, rho_0=rho_0, up=up, xtilde=xt, xmax=xmax, tmax=tmax)


# ---------------------------------------------------------------- Mader
MADER = 'exactpack.solvers.mader.timmes.Mader'


@st.composite
def mader_params(draw):
    g = draw(st.one_of(st.just(3.0), uni(1.5, 4.0)))
    d_cj = draw(pos(8.0e5))
    p_cj = draw(pos(3.0e11))
    u_cj = d_cj / (g + 1)
    up = draw(st.one_of(st.just(0.0), uni(0.0, 0.9))) * u_cj
    return dict(p_cj=p_cj, d_cj=d_cj, gamma=g, u_piston=up)


# ---------------------------------------------------------------- SDRZ
SDRZ = 'exactpack.solvers.sdrz.sdrz.SteadyDetonationReactionZone'


@st.composite
def sdrz_params(draw):
    return dict(D=draw(pos(0.85)), rho_0=draw(pos(1.6)), gamma=draw(st.one_of(st.just(3.0), uni(1.3, 4.0))))


# ---------------------------------------------------------------- EP piston
PISTON = 'exactpack.solvers.ep_piston.ep_piston.EPpiston'


@st.composite
def piston_params(draw):
    model = draw(st.sampled_from(['hypo', 'hyperIfin', 'hyperFin']))
    rho0 = draw(pos(2.79, decades=0.7))
    c0 = draw(pos(0.533, decades=0.5))
    s0 = draw(st.one_of(st.just(1.34), uni(1.0, 1.8)))
    gam = draw(st.one_of(st.just(2.0), uni(1.0, 2.5)))
    K = rho0 * c0 ** 2
    G = K * draw(uni(0.1, 0.6))
    Y = G * draw(logu(2e-3, 3e-2))
    # yield particle velocity ~ Y/(2G)*c_L ; piston faster so the plastic wave exists
    cl = math.sqrt((K + 4 * G / 3) / rho0)
    vy = Y / (2 * G) * cl
    up = vy * draw(uni(1.5, 10.0))
    return dict(gamma=gam, c0=c0, s0=s0, model=model, G=G, Y=Y, rho0=rho0, up=up)


# ---------------------------------------------------------------- black-box Noh
BBNOH = 'exactpack.solvers.nohblackboxeos.blackboxnoh.'


@st.composite
def eos_spec(draw, kinds=('ideal_gas_eos', 'stiffened_gas_eos', 'noble_abel_eos', 'carnahan_starling_eos')):
    k = draw(st.sampled_from(list(kinds)))
    g = draw(st.one_of(st.sampled_from([5.0 / 3.0, 1.4, 3.0]), uni(1.15, 3.0)))
    if k == 'ideal_gas_eos':
        return dict(cls=k, args=dict(gamma=g))
    if k == 'stiffened_gas_eos':
        return dict(cls=k, args=dict(gamma=g, c_s=draw(logu(0.05, 1.5)), rho_inf=draw(logu(0.3, 1.0))))
    if k == 'noble_abel_eos':
        return dict(cls=k, args=dict(gamma=g, b=draw(logu(1e-3, 0.03))))
    if k == 'carnahan_starling_eos':
        return dict(cls=k, args=dict(gamma=g, b=draw(logu(1e-3, 0.03))))
    raise KeyError(k)


@st.composite
def bbnoh_case(draw, n_min=1, n_max=6, kinds=('ideal_gas_eos', 'stiffened_gas_eos', 'noble_abel_eos', 'carnahan_starling_eos')):
    spec = draw(eos_spec(kinds))
    g = spec['args']['gamma']
    sym = draw(st.sampled_from([0, 1, 2]))
    if spec['cls'] in ('noble_abel_eos', 'carnahan_starling_eos'):
        # co-volume such that the (ideal-gas) shocked density stays well below the close-packing density 1/b,
        # otherwise the ideal-gas state is not a physically reasonable starting guess
        rho_ideal = ((g + 1) / (g - 1)) ** (sym + 1)
        spec['args']['b'] = draw(logu(0.005, 0.25)) / rho_ideal
    if spec['cls'] == 'stiffened_gas_eos':
        # likewise the stiffness: rho_inf c_s^2 / gamma must stay small against the ram pressure rho0 u0^2 = 1, otherwise the ideal-gas Noh
        # state is far from the physical root and not a 'physically reasonable starting guess' (thorough-tier case gamma = 1.15, spherical,
        # c_s = 0.56: Newton converged from it to a root with negative shock speed)
        spec['args']['c_s'] = draw(logu(0.05, 0.3))
    wrapper = draw(st.booleans())
    if wrapper:
        path = BBNOH + ['Planar', 'Cylindrical', 'Spherical'][sym] + 'NohBlackBox'
        rho0, u0 = 1.0, -1.0
        params = {}
    else:
        path = BBNOH + 'NohBlackBoxEos'
        rho0, u0 = 1.0, -1.0     # _run reads the class attributes rho0/u0; IC dict must agree with them
        params = dict(geometry=sym + 1)
    ic = dict(density=rho0, velocity=u0, pressure=0, symmetry=sym)
    # physically reasonable guess: the ideal-gas Noh state perturbed by up to 15 %
    rho_s = rho0 * ((g + 1) / (g - 1)) ** (sym + 1)
    e_s = 0.5 * u0 ** 2
    D = 0.5 * (g - 1) * abs(u0)
    pert = [draw(uni(0.9, 1.15)) for _ in range(3)]
    guess = [rho_s * pert[0], e_s * pert[1], D * pert[2]]
    t = draw(logu(0.05, 3.0))
    fr = draw(st.lists(logu(0.05, 10.0), min_size=n_min, max_size=n_max))
    x = [D * t * f for f in fr if abs(f - 1) > 0.05] or [D * t * 0.5]
    return dict(solver=path, params=params, eos=spec, ic=ic, guess=guess, t=t, x=x, symmetry=sym, gamma=g)


# ---------------------------------------------------------------- RMTV
RMTV = 'exactpack.solvers.rmtv.rmtv.Rmtv'


@st.composite
def rmtv_params(draw):
    """only the parameters that rescale the eigen-solution (beta0 is an eigenvalue of
    (aval,bval,gamma,xif,xis) and stays at its documented value)"""
    p = {}
    if draw(st.booleans()):
        p['rf'] = draw(logu(0.3, 3.0))
    if draw(st.booleans()):
        p['g0'] = draw(logu(0.3, 3.0))
    if draw(st.booleans()):
        p['bigamma'] = draw(logu(0.5, 2.0))
    if draw(st.booleans()):
        p['chi0'] = draw(logu(0.5, 2.0))
    return p


# ---------------------------------------------------------------- Guderley
GUDERLEY = 'exactpack.solvers.guderley.guderley.Guderley'


@st.composite
def guderley_params(draw, gammas=(3.0, 2.0)):
    return dict(geometry=draw(st.sampled_from([2, 3])), gamma=draw(st.sampled_from(list(gammas))), rho0=draw(pos(1.0)))


# ---------------------------------------------------------------- radiative shocks
RAD = 'exactpack.solvers.radshocks.nED_radshocks.'


@st.composite
def radshock_params(draw, kind):
    """kind in ED, nED, ie"""
    p = {}
    M0 = draw(st.sampled_from([1.2, 1.05, 1.4, 2.0, 3.0])) if kind != 'ie' else draw(st.sampled_from([1.2, 1.4, 2.0]))
    if kind == 'Sn' and M0 >= 2.0:
        M0 = 1.4          # (the S_n iteration takes 3 min per construction at M0 = 2, with other parameters changed > 30 min, and > 10 min at M0 = 3: not explored)
    p['M0'] = M0
    if draw(st.booleans()):
        p['Tref'] = draw(st.sampled_from([100.0, 50.0, 200.0, 150.0]))
    if draw(st.booleans()) and kind != 'ie':
        p['rho0'] = draw(st.sampled_from([1.0, 0.5, 2.0]))
    if draw(st.booleans()) and kind != 'ie':
        p['gamma'] = draw(st.sampled_from([5.0 / 3.0, 1.4, 1.5]))
    if draw(st.booleans()) and kind != 'ie':
        p['Cv'] = 1.4472799784454e12 * draw(st.sampled_from([1.0, 0.5, 2.0]))
    if kind == 'nED' and draw(st.integers(0, 2)) == 0:
        p['sigS'] = draw(st.sampled_from([100.0, 300.0, 577.35]))      # scattering: total cross section != absorption cross section
        if draw(st.booleans()):
            p.update(expDensity_abs=1.0, expTemp_abs=-3.5)               # Kramers-like absorption next to constant (Thomson) scattering
    return p


RAD_DEFAULT_M0 = {'ED': 1.2, 'nED': 1.2, 'Sn': 1.2, 'ie': 1.4}


def make_radshock(case, out):
    """The radiative-shock constructors fail for scattered parameter sets (root brackets /
    splice heuristics).  C12 quantifies over 'Mach numbers for which a solution is produced',
    so a failed construction is recorded as 'no-solution-produced' - except at the documented
    default parameter set, where it propagates (and is then classified by the collector)."""
    P = case['params']
    kind = case['kind']
    try:
        return make_solver(case)
    except Exception as e:  # noqa
        if set(P) <= {'M0'} and P.get('M0', RAD_DEFAULT_M0[kind]) == RAD_DEFAULT_M0[kind]:
            raise
        out.label('no-solution-produced:%s' % type(e).__name__)
        return None


# ---------------------------------------------------------------- burn-time solvers
KEN1 = 'exactpack.solvers.kenamond.kenamond1.Kenamond1'
KEN2 = 'exactpack.solvers.kenamond.kenamond2.Kenamond2'
KEN3 = 'exactpack.solvers.kenamond.kenamond3.Kenamond3'
DSDCYL = 'exactpack.solvers.dsd.cylexpansion.CylindricalExpansion'


def rot2(a):
    c, s = math.cos(a), math.sin(a)
    return np.array([[c, -s], [s, c]])


def rot3(a, b, c):
    """rotation from three Euler angles (z-y-z)"""
    def rz(t):
        return np.array([[math.cos(t), -math.sin(t), 0], [math.sin(t), math.cos(t), 0], [0, 0, 1.0]])

    def ry(t):
        return np.array([[math.cos(t), 0, math.sin(t)], [0, 1.0, 0], [-math.sin(t), 0, math.cos(t)]])
    return rz(a) @ ry(b) @ rz(c)


angle = st.one_of(st.sampled_from([0.0, math.pi / 2, math.pi, -math.pi / 2]), uni(-math.pi, math.pi))


@st.composite
def unit_vec(draw, dim):
    if dim == 2:
        a = draw(angle)
        return [math.cos(a), math.sin(a)]
    a, b = draw(angle), draw(uni(0.0, math.pi))
    return [math.sin(b) * math.cos(a), math.sin(b) * math.sin(a), math.cos(b)]


@st.composite
def ken1_params(draw):
    g = draw(st.sampled_from([2, 3]))
    return dict(geometry=g, D=draw(pos(1.0)), x_d=[draw(uni(-5.0, 5.0)) for _ in range(g)],
                t_d=draw(st.one_of(st.just(0.0), uni(-2.0, 2.0))))


@st.composite
def ken2_params(draw):
    g = draw(st.sampled_from([2, 3]))
    R = draw(pos(3.0))
    D2 = draw(pos(1.0))
    D1 = D2 * (1.0 + draw(st.one_of(st.just(1.0), st.just(0.0), logu(0.01, 4.0))))
    mags = [R * (1 + draw(logu(0.05, 5.0))) for _ in range(4)]
    signs = draw(st.one_of(st.just([1, 1, -1, -1]), st.lists(st.sampled_from([1, -1]), min_size=4, max_size=4)))
    dets = [m * s for m, s in zip(mags, signs)]
    t3 = draw(st.one_of(st.just(0.0), uni(-1.0, 1.0)))
    ts = []
    for a in dets:
        tc = t3 + R * (1 / D1 + 1 / D2) - abs(a) / D2
        slack = draw(st.one_of(st.just(0.0), logu(1e-3, 3.0))) * R / D2
        ts.append(tc + slack + 4e-16 * max(1.0, abs(tc)))
    return dict(geometry=g, R=R, D1=D1, D2=D2, dets=dets, t_d=[ts[0], ts[1], t3, ts[2], ts[3]])


@st.composite
def ken3_params(draw):
    g = draw(st.sampled_from([2, 3]))
    R = draw(pos(3.0))
    d = draw(unit_vec(g))
    l = R * (1 + draw(logu(0.02, 5.0)))
    return dict(geometry=g, R=R, D=draw(pos(2.0)), x_d=[l * c for c in d],
                t_d=draw(st.one_of(st.just(0.0), uni(-2.0, 2.0))))


@st.composite
def dsdcyl_params(draw):
    r1 = draw(pos(1.0))
    r2 = r1 * (1 + draw(logu(0.05, 5.0)))
    D1, D2 = draw(pos(0.5)), draw(pos(1.0))
    a1 = draw(st.one_of(st.just(0.0), uni(0.0, 0.9))) * D1 * r1
    a2 = draw(st.one_of(st.just(0.0), uni(0.0, 0.9))) * D2 * r2
    return dict(r_1=r1, r_2=r2, D_CJ_1=D1, D_CJ_2=D2, alpha_1=a1, alpha_2=a2,
                t_d=draw(st.one_of(st.just(0.0), uni(-2.0, 2.0), st.integers(-2, 3))))       # (an integer is a legitimate number too)


# ---------------------------------------------------------------- heat conduction: rod family
ROD = 'exactpack.solvers.heat.rod1d.Rod1D'
HEAT = 'exactpack.solvers.heat.'


@st.composite
def rod_params(draw, bc=None, nsum=None):
    """BC1..BC4 of the 1-D rod with inhomogeneous data"""
    bc = bc or draw(st.sampled_from([1, 2, 3, 4]))
    L = draw(st.one_of(st.just(2.0), logu(0.3, 5.0)))
    kappa = draw(st.one_of(st.just(1.0), logu(0.1, 10.0)))
    TL, TR = draw(uni(-3.0, 5.0)), draw(uni(-3.0, 5.0))
    if draw(st.integers(0, 3)) == 0:
        TR = TL
    a = draw(st.one_of(st.just(1.0), logu(0.3, 3.0)))     # non-unit alpha/beta exercise the gamma/alpha scaling
    b = draw(st.one_of(st.just(1.0), logu(0.3, 3.0)))
    c1, c2 = draw(st.one_of(st.just(0.0), uni(-2.0, 2.0))), draw(st.one_of(st.just(0.0), uni(-2.0, 2.0)))
    N = nsum or draw(st.sampled_from([100, 200, 400]))
    p = dict(L=L, kappa=kappa, TL=TL, TR=TR, Nsum=N)
    if bc == 1:
        p.update(alpha1=a, beta1=0.0, gamma1=c1, alpha2=b, beta2=0.0, gamma2=c2)
    elif bc == 2:
        p.update(alpha1=0.0, beta1=a, gamma1=c1, alpha2=0.0, beta2=a, gamma2=c1)   # equal fluxes required (compared with == by the solver)
    elif bc == 3:
        p.update(alpha1=a, beta1=0.0, gamma1=c1, alpha2=0.0, beta2=b, gamma2=c2)
    else:
        p.update(alpha1=0.0, beta1=a, gamma1=c1, alpha2=b, beta2=0.0, gamma2=c2)
    return p, bc


def rod_tmin(p, bc, eps=1e-13):
    """time after which the first neglected mode is below eps (series truncation bound)"""
    N = p['Nsum']
    k = (N * math.pi / p['L']) if bc in (1, 2) else ((2 * N + 1) * math.pi / (2 * p['L']))
    return -math.log(eps) / (p['kappa'] * k * k)


def unit_dir(dim, a, b):
    """deterministic unit vector from two angles"""
    if dim == 2:
        return np.array([math.cos(a), math.sin(a)])
    return np.array([math.sin(b) * math.cos(a), math.sin(b) * math.sin(a), math.cos(b)])
