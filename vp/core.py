"""Common machinery: obligations, collectors, sharded Hypothesis driver,
known-finding matcher, evidence / replay writers.  See DESIGN.md section 2."""
import os, sys, json, hashlib, time, math, traceback, fnmatch, warnings
from collections import Counter

VERIF = os.path.dirname(os.path.dirname(os.path.abspath(__file__)))
REPO = os.environ.get('VP_REPO', '/repo')
KNOWN_FILE = os.path.join(VERIF, 'known_findings.json')

EXIT_OK, EXIT_VIOLATION, EXIT_HARNESS = 0, 1, 2


class HarnessError(Exception):
    pass


class _Stop(BaseException):
    """Raised inside a Hypothesis test to abandon the run (budget hit)."""


def jsonable(o):
    import numpy as np
    if isinstance(o, dict):
        return {str(k): jsonable(v) for k, v in o.items()}
    if isinstance(o, (list, tuple)):
        return [jsonable(v) for v in o]
    if isinstance(o, np.ndarray):
        return jsonable(o.tolist())
    if isinstance(o, (np.floating,)):
        return jsonable(float(o))
    if isinstance(o, (np.integer,)):
        return int(o)
    if isinstance(o, (np.bool_,)):
        return bool(o)
    if isinstance(o, float):
        if math.isnan(o):
            return 'nan'
        if math.isinf(o):
            return 'inf' if o > 0 else '-inf'
        return o
    if isinstance(o, (int, str, bool)) or o is None:
        return o
    if isinstance(o, complex):
        return [o.real, o.imag]
    return repr(o)


def unjson_float(v):
    if v == 'nan':
        return float('nan')
    if v == 'inf':
        return float('inf')
    if v == '-inf':
        return float('-inf')
    return v


def case_hash(case):
    def rnd(o):
        if isinstance(o, float):
            return float('%.12g' % o) if math.isfinite(o) else repr(o)
        if isinstance(o, dict):
            return {k: rnd(v) for k, v in sorted(o.items()) if not k.startswith('_')}
        if isinstance(o, (list, tuple)):
            return [rnd(v) for v in o]
        return o
    s = json.dumps(rnd(jsonable(case)), sort_keys=True)
    return hashlib.sha1(s.encode()).hexdigest()[:16]


def derive_seed(*parts):
    h = hashlib.sha256('|'.join(str(p) for p in parts).encode()).digest()
    return int.from_bytes(h[:8], 'big') & 0x7fffffffffffffff


# --------------------------------------------------------------------------
class Out:
    """Result of evaluating one generated case against an oracle."""

    def __init__(self):
        self.labels = []
        self.fails = []
        self.nontrivial = False
        self.metric = 0.0        # max observed (error / tolerance)
        self.info = {}
        self.checks = 0          # number of scalar relations evaluated

    def label(self, *ls):
        for l in ls:
            self.labels.append(str(l))

    def fail(self, relation, regime='', **detail):
        self.fails.append(dict(relation=relation, regime=str(regime),
                               detail=jsonable(detail)))

    def close(self, relation, got, want, rtol, atol=0.0, regime='', scale=None, **extra):
        """Assert |got-want| <= atol + rtol*scale elementwise (scale defaults
        to max(|got|,|want|)).  NaN/inf in either is a failure unless both are
        identical non-finite values."""
        import numpy as np
        g = np.asarray(got, dtype=float)
        w = np.asarray(want, dtype=float)
        g, w = np.broadcast_arrays(g, w)
        self.checks += int(g.size)
        if g.size == 0:
            return True
        sc = np.maximum(np.abs(g), np.abs(w)) if scale is None else np.broadcast_to(np.abs(np.asarray(scale, dtype=float)), g.shape)
        tol = atol + rtol * sc
        with np.errstate(all='ignore'):
            err = np.abs(g - w)
        both_bad = ~np.isfinite(g) & ~np.isfinite(w)
        same_bad = both_bad & ((np.isnan(g) & np.isnan(w)) | (g == w))
        bad = ~(err <= tol)
        bad &= ~same_bad
        with np.errstate(all='ignore'):
            ratio = np.where(np.isfinite(err) & (tol > 0), err / np.where(tol > 0, tol, 1), np.where(bad, np.inf, 0.0))
        finite_ratio = ratio[np.isfinite(ratio) & ~bad]      # headroom of the relations that held
        if finite_ratio.size:
            self.metric = max(self.metric, float(finite_ratio.max()))
        if bad.any():
            i = int(np.argmax(np.where(bad, np.where(np.isfinite(ratio), ratio, 1e300), -1)))
            self.fail(relation, regime, index=i, got=float(g.flat[i]), want=float(w.flat[i]),
                      tol=float(tol.flat[i]), n_bad=int(bad.sum()), n=int(g.size), **extra)
            return False
        return True

    def true(self, relation, cond, regime='', **detail):
        self.checks += 1
        if not cond:
            self.fail(relation, regime, **detail)
            return False
        return True


class Obligation:
    """One executable statement of (part of) a property.

    strategy : Hypothesis strategy -> JSON-able dict 'case' (must contain
               'solver' for bucketing, may contain '_'-prefixed keys that are
               ignored for hashing)
    check    : case -> Out
    n        : dict tier -> number of cases
    expected_exc : exception types that mean "input rejected loudly"; counted,
               never a violation here.
    runner   : optional custom driver (coll, n, seed, tier) (stateful machines)
    """

    def __init__(self, name, strategy=None, check=None, quick=200, thorough=4000,
                 expected_exc=(), runner=None, max_shards=16, min_per_shard=8,
                 budget_s=None, doc=''):
        self.name = name
        self.strategy = strategy
        self.check = check
        self.n = {'quick': quick, 'thorough': thorough}
        self.expected_exc = tuple(expected_exc)
        self.runner = runner
        self.max_shards = max_shards
        self.min_per_shard = min_per_shard
        self.budget_s = budget_s or {'quick': 240, 'thorough': 3000}
        self.doc = doc


# --------------------------------------------------------------------------
_known_cache = None


def load_known():
    global _known_cache
    if _known_cache is None:
        if os.path.exists(KNOWN_FILE):
            with open(KNOWN_FILE) as f:
                _known_cache = json.load(f)
        else:
            _known_cache = {'findings': [], 'fixed': []}
    return _known_cache


_SAFE = {'abs': abs, 'min': min, 'max': max, 'math': math, 'len': len, 'any': any, 'all': all,
         'float': float, 'int': int, 'str': str, 'True': True, 'False': False, 'None': None,
         'isinstance': isinstance, 'list': list, 'round': round, 'sum': sum, 'sorted': sorted}


def _flatten(case, fail):
    env = {}
    for k, v in case.items():
        if not k.startswith('_'):
            env[k] = v
    p = case.get('params')
    if isinstance(p, dict):
        for k, v in p.items():
            env.setdefault(k, v)
    env['case'] = case
    env['relation'] = fail['relation']
    env['regime'] = fail['regime']
    env['detail'] = fail.get('detail', {})
    return env


def match_known(prop, obl_name, case, fail):
    """Return the id of the known-finding entry covering this failure, or None."""
    for e in load_known().get('findings', []):
        if e.get('status', 'known') != 'known' or e['property'] != prop:
            continue
        # the coverage-guided supplement '<name>-atheris' has the strategy and oracle of '<name>': same findings
        base = obl_name[:-8] if obl_name.endswith('-atheris') else obl_name
        if 'obligation' in e and not (fnmatch.fnmatch(obl_name, e['obligation']) or fnmatch.fnmatch(base, e['obligation'])):
            continue
        if 'solver' in e and not fnmatch.fnmatch(str(case.get('solver', '')), e['solver']):
            continue
        if 'relation' in e and not fnmatch.fnmatch(fail['relation'], e['relation']):
            continue
        if 'regime' in e and not fnmatch.fnmatch(fail['regime'], e['regime']):
            continue
        w = e.get('where')
        if w:
            try:
                ok = bool(eval(w, {'__builtins__': {}}, dict(_SAFE, **_flatten(case, fail))))
            except Exception:
                ok = False
            if not ok:
                continue
        return e['id']
    return None


# --------------------------------------------------------------------------
def exactpack_frame(tb):
    """Innermost traceback frame that lies inside the ExactPack sources."""
    best = None
    for fs in traceback.extract_tb(tb):
        fn = os.path.abspath(fs.filename)
        if fn.startswith(os.path.join(REPO, 'exactpack')):
            best = '%s:%s' % (os.path.relpath(fn, REPO), fs.name)
    return best


class Collector:
    def __init__(self, prop, obl, tier, budget_s=None):
        self.prop, self.obl, self.tier = prop, obl, tier
        self.evals = 0
        self.checks = 0
        self.nontrivial = set()
        self.labels = Counter()
        self.rejected = Counter()
        self.buckets = {}      # key -> dict(count, cases[<=3], known)
        self.samples = []      # (hash, case, info)
        self.max_metric = 0.0
        self.t0 = time.time()
        self.deadline = self.t0 + budget_s if budget_s else None
        self.inconclusive = False
        self.harness_errors = []

    def evaluate(self, case):
        """Run the oracle on one case, classify exceptions.  Returns Out or None."""
        try:
            return self.obl.check(case)
        except _Stop:
            raise
        except Exception as e:  # noqa
            tb = sys.exc_info()[2]
            fr = exactpack_frame(tb)
            if fr is None or isinstance(e, HarnessError):
                self.harness_errors.append(dict(case=jsonable(case), error=repr(e),
                                                tb=traceback.format_exc()[-3000:]))
                if len(self.harness_errors) > 3:
                    raise _Stop()
                return None
            if isinstance(e, self.obl.expected_exc):
                self.rejected['%s@%s' % (type(e).__name__, fr)] += 1
                return None
            out = Out()
            out.fail('exception:%s@%s' % (type(e).__name__, fr), '', message=str(e)[:300])
            return out

    def record(self, case, out):
        self.evals += 1
        if out is None:
            return
        self.checks += out.checks
        h = case_hash(case)
        for l in out.labels:
            self.labels[l] += 1
        if out.nontrivial:
            self.nontrivial.add(h)
        self.max_metric = max(self.max_metric, out.metric)
        if len(self.samples) < 3 or h < self.samples[-1][0]:
            self.samples.append((h, jsonable(case), dict(labels=out.labels, nontrivial=out.nontrivial,
                                                         metric=out.metric, info=jsonable(out.info))))
            first = self.samples[:1]
            rest = sorted(self.samples[1:], key=lambda s: s[0])[:3]
            self.samples = first + rest
        for f in out.fails:
            kid = match_known(self.prop, self.obl.name, case, f)
            key = (str(case.get('solver', self.obl.name)), f['relation'], f['regime'], kid)
            b = self.buckets.setdefault(key, dict(count=0, cases=[]))
            b['count'] += 1
            size = len(json.dumps(jsonable(case)))
            b['cases'].append((size, h, jsonable(case), f))
            b['cases'] = sorted(b['cases'], key=lambda c: (c[0], c[1]))[:3]

    def run(self, case):
        if self.deadline and time.time() > self.deadline:
            self.inconclusive = True
            raise _Stop()
        self.record(case, self.evaluate(case))

    def result(self):
        return dict(obligation=self.obl.name, evals=self.evals, checks=self.checks,
                    nontrivial=sorted(self.nontrivial), labels=dict(self.labels),
                    rejected=dict(self.rejected),
                    buckets=[dict(key=list(k), count=b['count'], cases=[list(c) for c in b['cases']])
                             for k, b in self.buckets.items()],
                    samples=[list(s) for s in self.samples], max_metric=self.max_metric,
                    wall=time.time() - self.t0, inconclusive=self.inconclusive,
                    harness_errors=self.harness_errors)


def hyp_settings(n, shrink=False):
    from hypothesis import settings, HealthCheck, Phase
    phases = [Phase.generate] + ([Phase.shrink] if shrink else [])
    return settings(max_examples=n, database=None, deadline=None, derandomize=False,
                    report_multiple_bugs=False, print_blob=False, phases=phases,
                    suppress_health_check=list(HealthCheck))


def worker_init():
    import numpy as np
    warnings.simplefilter('ignore')
    np.seterr(all='ignore')
    os.environ.setdefault('MPLBACKEND', 'Agg')
    import exactpack
    if not os.path.abspath(exactpack.__file__).startswith(REPO + os.sep):
        raise HarnessError('exactpack imported from %s, not from %s' % (exactpack.__file__, REPO))


def run_shard(task):
    """Executed in a worker process."""
    prop, obl_name, shard, n, seed, tier, budget = task
    try:
        worker_init()
        from . import registry
        obl = registry.get_obligation(prop, obl_name)
        coll = Collector(prop, obl, tier, budget)
        s = derive_seed(seed, prop, obl_name, shard)
        if obl.runner is not None:
            try:
                obl.runner(coll, n, s, tier)
            except _Stop:
                pass
        else:
            import hypothesis
            from hypothesis import given

            # Hypothesis always starts with the all-minimal example; on every shard but the
            # first that duplicate is drawn and discarded (not evaluated, not counted)
            skip = [1 if shard > 0 else 0]

            @hypothesis.seed(s)
            @hyp_settings(n + skip[0])
            @given(obl.strategy)
            def t(case):
                if skip[0]:
                    skip[0] = 0
                    return
                coll.run(case)
            try:
                t()
            except _Stop:
                pass
        r = coll.result()
        r['shard'] = shard
        return r
    except BaseException as e:  # harness failure
        return dict(obligation=obl_name, shard=shard, fatal=traceback.format_exc()[-4000:])


def shrink_bucket(prop, obl, key, seed_case, budget_s=90):
    """Minimise a failing case with Hypothesis' shrinker: re-run the strategy
    from a fixed seed with a test that fails only for this bucket; keep the
    smallest failing case seen.  Falls back to seed_case."""
    import hypothesis
    from hypothesis import given
    solver, relation, regime = key[0], key[1], key[2]
    best = [None]
    t_end = time.time() + budget_s

    def in_bucket(case):
        if str(case.get('solver', obl.name)) != solver:
            return False
        coll = Collector(prop, obl, 'quick')
        out = coll.evaluate(case)
        if out is None:
            return False
        for f in out.fails:
            if f['relation'] == relation and f['regime'] == regime and \
                    match_known(prop, obl.name, case, f) is None:
                return f
        return False

    if obl.strategy is None:
        return seed_case
    for attempt in range(4):
        @hypothesis.seed(derive_seed('shrink', prop, obl.name, solver, relation, attempt))
        @hyp_settings(400, shrink=True)
        @given(obl.strategy)
        def t(case):
            if time.time() > t_end:
                raise _Stop()
            f = in_bucket(case)
            if f:
                size = len(json.dumps(jsonable(case)))
                if best[0] is None or size <= best[0][0]:
                    best[0] = (size, jsonable(case), f)
                raise AssertionError('bucket')
        try:
            t()
        except _Stop:
            break
        except AssertionError:
            break
        except Exception:
            break
        if best[0] is not None or time.time() > t_end:
            break
    if best[0] is None:
        return seed_case
    return (best[0][0], case_hash(best[0][1]), best[0][1], best[0][2])
