"""Enumeration of every public ExactSolver subclass and a minimal valid call recipe for each
(used by C05, C06 and C20)."""
import importlib, inspect, math, pkgutil
import numpy as np

from . import cat


def all_solver_classes():
    import exactpack.solvers as S
    from exactpack.base import ExactSolver
    out = {}
    for m in pkgutil.walk_packages(S.__path__, 'exactpack.solvers.'):
        try:
            mod = importlib.import_module(m.name)
        except Exception:      # optional compiled back ends etc.
            continue
        for n, o in vars(mod).items():
            if inspect.isclass(o) and issubclass(o, ExactSolver) and o is not ExactSolver and o.__module__ == mod.__name__:
                out[o.__module__ + '.' + n] = o
    return dict(sorted(out.items()))


# classes whose constructor can never succeed (the wrapper fixes a geometry the base class rejects)
UNCONSTRUCTIBLE = {'exactpack.solvers.cog.cog12.PlanarCog12'}
# constructible, but no planar parameter set gives a real temperature amplitude (b/(k-b) < 0 for k = 0): every call raises
UNUSABLE = {'exactpack.solvers.cog.cog14.PlanarCog14'}
STRUCTURED = {'exactpack.solvers.dsd.ratestick.RateStick', 'exactpack.solvers.dsd.explosivearc.ExplosiveArc'}
SLOW = {'exactpack.solvers.radshocks.nED_radshocks.Sn_Solver': 35.0, 'exactpack.solvers.radshocks.nED_radshocks.ED_Solver': 1.0,
        'exactpack.solvers.dsd.ratestick.RateStick': 1.0, 'exactpack.solvers.dsd.explosivearc.ExplosiveArc': 1.0}


def recipe(path, u):
    r = _recipe(path, u)
    if r is not None and r['kwargs']:
        allowed = getattr(cat.cls_of(path), 'parameters', {})
        r['kwargs'] = {k: v for k, v in r['kwargs'].items() if k in allowed}      # the geometry wrappers accept a subset
    return r


def _recipe(path, u):
    """u: list of >= 16 floats in [0,1) (generated) -> dict(kwargs, points (python lists), t, layout, n_min, batch_dependent)
    layout: 'N' 1-D, 'NxD' list of D-tuples, '2xN' two rows"""
    n = lambda i, lo, hi: lo + (hi - lo) * u[i % len(u)]
    N = 1 + int(u[0] * 11.999)
    nondefault = u[1] >= 0.5          # half of the cases use non-default (generated) parameters where the recipe knows an admissible range
    r = dict(kwargs={}, t=0.5, layout='N', n_min=1, batch_dependent=False, special=None)
    mod = path.rsplit('.', 2)[0]

    def radii(lo, hi, k=N):
        return [lo + (hi - lo) * u[(3 + 5 * i) % len(u)] * (0.999 if i % 2 else 0.97) + 1e-3 * i * (hi - lo) / (k + 1) for i in range(k)]
    if '.cog.' in path:
        r['points'] = radii(0.2, 1.5)
        if '.cog11.' in path:
            r['kwargs'] = dict(Gamma=40.0)
        return r
    if path.endswith('CylindricalExpansion'):
        r.update(layout='NxD', t=0.0)
        r['points'] = [[rr * math.cos(6 * u[(i + 2) % len(u)]), rr * math.sin(6 * u[(i + 2) % len(u)])] for i, rr in enumerate(radii(0.5, 5.0))]
        return r
    if path in STRUCTURED:
        nx, ny = 3, 3
        r['special'] = 'structured'
        if path.endswith('RateStick'):
            x = np.linspace(0.0, 0.1, nx)
            y = np.linspace(0.0, 0.1, ny)
            x2, y2 = np.meshgrid(x, y)
            r['kwargs'] = dict(xnodes=nx, ynodes=ny, R=0.1, t_f=0.05, r_d=2.5)
        else:
            rr = np.linspace(2.0, 4.0, nx)
            th = np.linspace(-np.pi / 2, np.pi / 2, ny)
            r2g, th2g = np.meshgrid(rr, th)
            x2, y2 = r2g * np.cos(th2g), r2g * np.sin(th2g)
            r['kwargs'] = dict(xnodes=nx, ynodes=ny, t_f=0.05)
        r.update(layout='NxD', t=0.6, points=np.vstack((x2.flatten(), y2.flatten())).T.tolist())
        return r
    if '.ehep.' in path:
        r.update(points=radii(0.05, 5.0), t=2.0)
        if nondefault:
            r['kwargs'] = dict(D=n(6, 0.5, 1.5), rho_0=n(7, 0.8, 3.0), up=n(8, 0.0, 0.1))
        return r
    if '.ep_piston.' in path:
        r.update(points=radii(0.01, 1.0), t=0.01)      # t <= max(x)/wv_el is demanded by the solver
        return r
    if '.guderley.' in path:
        r.update(kwargs=dict(gamma=3.0), points=radii(0.1, 2.0), t=0.6)
        return r
    if '.heat.' in path:
        name = path.rsplit('.', 1)[1]
        if name in ('Rod1D', 'PlanarSandwich', 'PlanarSandwichHot', 'PlanarSandwichHalf'):
            r.update(kwargs=dict(Nsum=40), points=radii(0.0, 2.0), t=0.1)
        elif name == 'Hutchens1':
            r.update(kwargs=dict(Nsum=40), points=radii(0.0, 1.0), t=0.3)
        elif name == 'Hutchens2':
            r.update(kwargs=dict(Nsum=10), layout='NxD', points=[list(q) for q in zip(radii(0.05, 0.95), radii(0.1, 1.9))], t=0.0)
        elif name == 'Rectangle':
            r.update(kwargs=dict(Nsum=10), layout='NxD', points=[list(q) for q in zip(radii(0.1, 1.9), radii(0.3, 1.7))], t=0.1)
        elif name == 'CylindricalSandwich':
            r.update(kwargs=dict(Nsum=2, Msum=3), layout='NxD', points=[list(q) for q in zip(radii(0.3, 0.8), radii(0.1, 1.4))], t=0.05)
        return r
    if '.kenamond.' in path:
        r.update(layout='NxD', t=0.0)
        rr = radii(3.2, 9.0)
        r['points'] = [[q * math.cos(6 * u[(i + 2) % len(u)]), q * math.sin(6 * u[(i + 2) % len(u)])] for i, q in enumerate(rr)]
        if path.endswith('.Kenamond1') and nondefault:
            r['kwargs'] = dict(x_d=(n(6, -2.0, 2.0), n(7, -2.0, 2.0)), D=n(8, 0.5, 3.0), t_d=n(9, -1.0, 2.0))
        if u[2] >= 0.6:          # three-dimensional variant of the same layout
            r['kwargs'] = dict(r['kwargs'], geometry=3)
            if 'x_d' in r['kwargs']:
                r['kwargs']['x_d'] = r['kwargs']['x_d'] + (n(10, -2.0, 2.0),)
            elif path.endswith('.Kenamond3'):
                r['kwargs']['x_d'] = (0.0, 0.0, 5.0)
            elif path.endswith('.Kenamond1'):
                r['kwargs']['x_d'] = (0.0, 0.0, 0.0)
            r['points'] = [[p_[0] * math.cos(3 * u[(i + 5) % len(u)]), p_[0] * math.sin(3 * u[(i + 5) % len(u)]), p_[1]] for i, p_ in enumerate(r['points'])]
        return r
    if '.mader.' in path:
        k = max(N, 2)
        r.update(points=sorted(radii(0.0, 5.0, k)), t=6.25e-6, n_min=2, batch_dependent=True)
        if nondefault:
            r['kwargs'] = dict(gamma=n(6, 2.0, 3.5), u_piston=n(7, 0.0, 1.0e5))
        return r
    if '.noh2.' in path or '.noh.' in path:
        r.update(points=radii(0.05, 1.0), t=0.5)
        if u[2] < 0.35 and '.noh.' in path:
            r['points'][int(u[3] * len(r['points'])) % len(r['points'])] = 0.0         # the centre itself is a valid point
        if nondefault:
            r['kwargs'] = dict(gamma=n(6, 1.2, 3.0))
            if path.endswith('.Noh'):
                r['kwargs'].update(geometry=1 + int(3 * u[7]), rho0=n(8, 0.3, 3.0), u0=-n(9, 0.3, 3.0))
        return r
    if '.nohblackboxeos.' in path:
        r.update(points=radii(0.05, 1.0), t=0.3, special='bbnoh')
        return r
    if '.radshocks.' in path:
        r.update(points=[x - 0.05 for x in radii(0.0, 0.1)], t=1e-10)
        return r
    if '.riemann2D' in path:
        r.update(kwargs=dict(bottom_state=[1., 1., 2.4, 0., 1.4], top_state=[0.25, 0.5, 7.0, 0., 1.4]), layout='NxD', t=0.0,
                 points=[[0.5 + x, -0.8 + 1.6 * u[(i + 4) % len(u)]] for i, x in enumerate(radii(0.1, 1.0))])
        return r
    if '.riemann.' in path:
        kw = dict(num_int_pts=401, num_x_pts=801) if path.endswith('GenEOS_Solver') else {}
        if nondefault:
            v = n(6, -0.3, 0.3)
            kw.update(rl=n(7, 0.5, 2.0), pl=n(8, 0.8, 2.0), ul=v, ur=v + n(9, -0.3, 0.3), gl=n(10, 1.3, 2.0), gr=n(11, 1.3, 2.0))
        r.update(kwargs=kw, points=radii(0.02, 0.98), t=0.25 if not nondefault else n(12, 0.05, 0.2))
        return r
    if '.rmtv.' in path:
        r.update(points=radii(0.05, 1.0), t=0.0)
        if nondefault:
            r['kwargs'] = dict(rf=n(6, 0.5, 2.0), g0=n(7, 0.5, 2.0))
            r['points'] = [x * r['kwargs']['rf'] for x in r['points']]
        return r
    if '.sdrz.' in path:
        r.update(points=radii(0.0, 0.5), t=0.5, batch_dependent=False)
        return r
    if '.sedov' in path:
        r.update(points=radii(0.05, 1.2), t=1.0, batch_dependent=True)
        if nondefault:
            r['kwargs'] = dict(gamma=n(6, 1.2, 2.5), eblast=n(7, 0.3, 2.0))
            r['t'] = n(8, 0.5, 1.5)
        return r
    if '.suolson.' in path:
        r.update(points=radii(0.05, 2.0), t=1e-10)
        if nondefault:
            r['kwargs'] = dict(opac=n(6, 0.5, 3.0), trad_bc_ev=n(7, 300.0, 2000.0))
        return r
    if '.blake.' in path:
        r.update(points=radii(0.1, 1.0), t=1.6e-4)
        if nondefault:
            r['kwargs'] = dict(shear_mod=n(6, 5e9, 5e10), poisson_ratio=n(7, 0.1, 0.4), pressure_scale=n(8, 1e5, 1e7), ref_density=n(9, 1500.0, 5000.0))
        return r
    return None


def construct(path, kwargs, special=None):
    c = cat.cls_of(path)
    if special == 'bbnoh' or '.nohblackboxeos.' in path:
        eos = cat.make_eos(dict(cls='ideal_gas_eos', args=dict(gamma=5.0 / 3.0)))
        if path.endswith('.NohBlackBoxEos'):
            s = cat.quiet(c, eos, dict(density=1, velocity=-1, pressure=0, symmetry=2), **kwargs)
            s.set_new_solver_initial_guess([60.0, 0.5, 0.3])
        else:
            sym = {'Planar': 0, 'Cylindrical': 1, 'Spherical': 2}[path.rsplit('.', 1)[1].replace('NohBlackBox', '')]
            s = cat.quiet(c, eos, dict(density=1, velocity=-1, pressure=0), **kwargs)
            s.set_new_solver_initial_guess([4.0 ** (sym + 1) * 0.95, 0.5, 0.3])
        return s
    return cat.quiet(c, **kwargs)
