"""Numerical differentiation through public solver calls (4th-order central stencils)."""
import numpy as np

C4 = np.array([1.0, -8.0, 0.0, 8.0, -1.0]) / 12.0       # f'(0) ~ sum C4[j] f((j-2)h) / h
J4 = np.array([-2, -1, 0, 1, 2])


def d_dr(fields_at, r, t, h, extra=None):
    """fields_at(r_array, t) -> dict name -> array.  r, h arrays of centres / steps.
    Returns (f0, fr): dicts of values and r-derivatives at the centres.  All stencil
    points of all centres go into ONE public call (plus 'extra' points appended, e.g. a
    fixed far point that pins a solver's internal grid)."""
    r = np.atleast_1d(np.asarray(r, float))
    h = np.broadcast_to(np.asarray(h, float), r.shape)
    pts = (r[:, None] + J4[None, :] * h[:, None]).ravel()
    n = pts.size
    if extra is not None:
        pts = np.concatenate([pts, np.atleast_1d(extra)])
    F = fields_at(pts, t)
    f0, fr = {}, {}
    for k, v in F.items():
        v = np.asarray(v, float)[:n].reshape(len(r), 5)
        f0[k] = v[:, 2]
        fr[k] = (v @ C4) / h
    return f0, fr


def d_dt(fields_at, r, t, k, extra=None):
    """time derivative at fixed r by four extra public calls at t + m k"""
    r = np.atleast_1d(np.asarray(r, float))
    n = r.size
    pts = r if extra is None else np.concatenate([r, np.atleast_1d(extra)])
    acc = None
    for m, c in zip(J4, C4):
        if c == 0.0:
            continue
        F = fields_at(pts, t + m * k)
        if acc is None:
            acc = {kk: np.zeros(n) for kk in F}
        for kk, v in F.items():
            acc[kk] += c * np.asarray(v, float)[:n]
    return {kk: v / k for kk, v in acc.items()}
