"""Tools shared by the 1-D Riemann obligations: field sampling, discontinuity
location by bisection on the public call, piecewise quadrature."""
import numpy as np
from . import cat

FIELDS = ('density', 'velocity', 'pressure', 'specific_internal_energy')


def sample(solver, x, t):
    sol = cat.quiet(solver, np.asarray(x, float), t)
    return np.vstack([np.asarray(sol[k], float) for k in FIELDS])      # (4, N)


def conserved(F):
    rho, u, p, e = F
    return np.vstack([rho, rho * u, rho * (e + 0.5 * u * u)])


def fluxes(F):
    rho, u, p, e = F
    return np.vstack([rho * u, rho * u * u + p, u * (rho * (e + 0.5 * u * u) + p)])


def locate_jumps(solver, t, a, b, n=2000, thresh=4e-3, iters=48):
    """Sample [a,b] uniformly; every cell whose normalised field change exceeds
    `thresh` is bisected (always into the half with the larger change) down to
    relative width 2^-iters.  Returns (x_grid, F_grid, jumps) where jumps is a
    list of dicts(xl, xr, Fl, Fr, size) for the cells that stayed discontinuous."""
    x = np.linspace(a, b, n + 1)
    F = sample(solver, x, t)
    rng = F.max(axis=1) - F.min(axis=1)
    # floors from the natural scales, so that rounding noise on an (almost) constant field is not a 'jump'
    cs = np.sqrt(np.max(np.abs(F[2])) / np.min(F[0]))
    floor = 1e-6 * np.array([np.max(F[0]), np.max(np.abs(F[1])) + cs, np.max(np.abs(F[2])), np.max(np.abs(F[3]))])
    rng = np.maximum(rng, floor)
    d = np.max(np.abs(np.diff(F, axis=1)) / rng[:, None], axis=0)
    idx = np.where(d > thresh)[0]
    jumps = []
    if idx.size == 0:
        return x, F, jumps
    xl, xr = x[idx].copy(), x[idx + 1].copy()
    Fl, Fr = F[:, idx].copy(), F[:, idx + 1].copy()
    for _ in range(iters):
        xm = 0.5 * (xl + xr)
        Fm = sample(solver, xm, t)
        dl = np.max(np.abs(Fm - Fl) / rng[:, None], axis=0)
        dr = np.max(np.abs(Fr - Fm) / rng[:, None], axis=0)
        left = dl >= dr
        xr = np.where(left, xm, xr)
        Fr = np.where(left[None, :], Fm, Fr)
        xl = np.where(left, xl, xm)
        Fl = np.where(left[None, :], Fl, Fm)
    size = np.max(np.abs(Fr - Fl) / rng[:, None], axis=0)
    for k in range(len(idx)):
        if size[k] > 0.5 * thresh:
            jumps.append(dict(cell=int(idx[k]), xl=float(xl[k]), xr=float(xr[k]), Fl=Fl[:, k].copy(), Fr=Fr[:, k].copy(),
                              size=float(size[k])))
    return x, F, jumps


def integrate_conserved(x, F, jumps):
    """trapezoid of the conserved densities on the grid, with each discontinuous
    cell split at the located jump"""
    U = conserved(F)
    dx = np.diff(x)
    cell = 0.5 * (U[:, 1:] + U[:, :-1]) * dx[None, :]
    for j in jumps:
        i = j['cell']
        Ul, Ur = conserved(j['Fl'][:, None])[:, 0], conserved(j['Fr'][:, None])[:, 0]
        xs = 0.5 * (j['xl'] + j['xr'])
        cell[:, i] = 0.5 * (U[:, i] + Ul) * (xs - x[i]) + 0.5 * (Ur + U[:, i + 1]) * (x[i + 1] - xs)
    return cell.sum(axis=1)
