"""Coverage-guided supplement: an obligation's Hypothesis strategy driven by atheris / libFuzzer.

`fuzzed(obl, ...)` returns a second obligation '<name>-atheris' whose cases are produced by libFuzzer mutating the byte
string that Hypothesis' `fuzz_one_input` decodes into the SAME strategy, with branch coverage of the ExactPack modules under
test as feedback.  The oracle is the obligation's own check; failures are collected (bucketed, matched against the known
findings) and the campaign goes on behind them - libFuzzer never sees a crash, so one shallow defect does not end it.

Each shard is one child process (libFuzzer ends with exit(), so it cannot run inside the pool worker):
    python -m vp.fuzz <PROP> <obligation> <runs> <seed> <result.json> <corpus dir>
The child leaves after exactly <runs> decoded executions and writes the collector state; the parent merges it.
-seed pins a campaign only approximately (libFuzzer); the reproducible unit is the JSON case that is written on failure
and replayed without atheris or Hypothesis by `./check <ID> --replay`."""
import json, os, subprocess, sys, tempfile, time
from collections import Counter

from .core import Obligation, Collector, VERIF, REPO, HarnessError, _Stop


# everything but the radiative-shock and Guderley packages (seconds per construction already without instrumentation)
CHEAP_MODULES = ('exactpack.base',) + tuple('exactpack.solvers.' + m for m in (
    'blake', 'cog', 'noh', 'sedov', 'riemann', 'kenamond', 'dsd', 'heat', 'mader', 'ehep', 'ep_piston', 'sdrz', 'suolson', 'rmtv'))


def fuzzed(obl, quick=0, thorough=20000, modules=('exactpack',), max_shards=8, min_per_shard=2000, budget_s=None):
    def runner(coll, n, seed, tier):
        scratch = os.environ.get('VP_SCRATCH') or tempfile.gettempdir()
        tag = '%s_%s_%d_%d' % (coll.prop, new.name, seed % 10 ** 8, os.getpid())
        out = os.path.join(scratch, 'fuzz_%s.json' % tag)
        corpus = os.path.join(scratch, 'corpus_%s' % tag)
        os.makedirs(corpus, exist_ok=True)
        env = dict(os.environ, PYTHONPATH=os.pathsep.join([REPO, VERIF, os.path.join(VERIF, '.deps')]), VP_FUZZ_MODULES=','.join(modules))
        done, rounds = 0, 0
        while done < n:
            budget = (coll.deadline - time.time()) if coll.deadline else 3000
            if budget < 20:
                coll.inconclusive = True
                break
            if os.path.exists(out):
                os.unlink(out)
            cmd = [sys.executable, '-W', 'ignore', '-m', 'vp.fuzz', coll.prop, new.name, str(n - done), str((seed + rounds) % (2 ** 31 - 1) or 1), out, corpus, str(int(budget))]
            try:
                p = subprocess.run(cmd, env=env, cwd=VERIF, capture_output=True, text=True, timeout=budget + 120)
            except subprocess.TimeoutExpired:
                coll.inconclusive = True
                break
            if not os.path.exists(out):
                raise HarnessError('atheris child produced no result (exit %s): %s' % (p.returncode, (p.stdout + p.stderr)[-1500:]))
            r = json.load(open(out))
            rounds += 1
            if r['evals'] == 0:
                if rounds > 3:
                    raise HarnessError('atheris child executes nothing: %s' % (p.stdout + p.stderr)[-800:])
                continue
            done += r['evals']
            coll.evals += r['evals']
            coll.checks += r['checks']
            coll.nontrivial |= set(r['nontrivial'])
            coll.labels.update(r['labels'])
            coll.rejected.update(r['rejected'])
            coll.samples = (coll.samples + [tuple(s_) for s_ in r['samples']])[:4]
            coll.max_metric = max(coll.max_metric, r['max_metric'])
            coll.inconclusive = coll.inconclusive or r['inconclusive']
            coll.harness_errors += r['harness_errors']
            for b in r['buckets']:
                d = coll.buckets.setdefault(tuple(b['key']), dict(count=0, cases=[]))
                d['count'] += b['count']
                d['cases'] = sorted(d['cases'] + [tuple(c) for c in b['cases']], key=lambda c: (c[0], c[1]))[:3]
            if r['inconclusive']:
                break
        coll.labels['atheris-child-processes'] += rounds

    new = Obligation(obl.name + '-atheris', strategy=obl.strategy, check=obl.check, quick=quick, thorough=thorough, expected_exc=obl.expected_exc,
                     runner=runner, max_shards=max_shards, min_per_shard=min_per_shard, budget_s=budget_s or {'quick': 200, 'thorough': 3000})
    new.cost = 50.0
    return new


def child(argv):
    prop, obl_name, runs, seed, out, corpus, budget = argv[0], argv[1], int(argv[2]), int(argv[3]), argv[4], argv[5], float(argv[6])
    import atheris
    mods = [m for m in os.environ.get('VP_FUZZ_MODULES', 'exactpack').split(',') if m]
    with atheris.instrument_imports(include=mods):
        import exactpack  # noqa
        import exactpack.solvers  # noqa
        import importlib, pkgutil
        for m in mods:
            try:
                mod = importlib.import_module(m)
                for sub in pkgutil.walk_packages(getattr(mod, '__path__', []), m + '.'):
                    if '.tests' in sub.name or sub.name.endswith('.setup'):
                        continue
                    try:
                        importlib.import_module(sub.name)
                    except Exception:  # optional back ends
                        pass
            except Exception:
                pass
    from . import core, registry
    import hypothesis
    from hypothesis import given
    core.worker_init()
    obl = registry.get_obligation(prop, obl_name)
    coll = Collector(prop, obl, 'fuzz', budget)
    state = dict(n=0, features=None)

    def dump():
        r = coll.result()
        r['features'] = state['features']
        tmp = out + '.tmp'
        with open(tmp, 'w') as f:
            json.dump(core.jsonable(r), f)
        os.replace(tmp, out)

    @core.hyp_settings(1)
    @given(obl.strategy)
    def t(case):
        try:
            coll.run(case)
        except _Stop:
            dump()
            os._exit(0)
        state['n'] += 1
        if state['n'] % 10 == 0:
            # numpy-heavy oracles leak ~25 MB per execution under atheris' bytecode instrumentation (C02 / C04 Riemann checks): the child
            # leaves when it has grown to 3 GB and the parent starts the next one on the same corpus directory
            import resource
            if resource.getrusage(resource.RUSAGE_SELF).ru_maxrss / 1024 > 3000:
                dump()
                os._exit(0)
        if state['n'] >= runs:
            dump()
            os._exit(0)
        if state['n'] % 500 == 0:
            dump()

    dump()
    fuzz_one = t.hypothesis.fuzz_one_input

    def one(data):
        fuzz_one(data)

    # libFuzzer is asked for many more runs than wanted: a byte string that does not decode into a case is not counted
    # Hypothesis reads its choices from the byte string and rejects one that is too short for the strategy: start from a few long
    # pseudo-random strings (a pure function of the seed) and let libFuzzer keep the length (-len_control=0)
    import hashlib
    os.makedirs(corpus, exist_ok=True)
    for i in range(8):
        blob = b''.join(hashlib.sha256(b'%d-%d-%d' % (seed, i, j)).digest() for j in range(64 * (1 + i % 4)))
        with open(os.path.join(corpus, 'seed%d' % i), 'wb') as f:
            f.write(blob)
    atheris.Setup([sys.argv[0], '-runs=%d' % (runs * 50 + 1000), '-seed=%d' % seed, '-max_len=8192', '-len_control=0', '-rss_limit_mb=6000',
                   '-artifact_prefix=%s/' % corpus, '-print_final_stats=0', '-verbosity=0', corpus], one)
    atheris.Fuzz()
    dump()


if __name__ == '__main__':
    child(sys.argv[1:])
