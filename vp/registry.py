import importlib

_cache = {}


def module(prop):
    if prop not in _cache:
        _cache[prop] = importlib.import_module('vp.props.%s' % prop.lower())
    return _cache[prop]


def obligations(prop):
    return list(module(prop).OBLIGATIONS)


def get_obligation(prop, name):
    for o in obligations(prop):
        if o.name == name:
            return o
    raise KeyError('%s has no obligation %r' % (prop, name))


def meta(prop):
    return getattr(module(prop), 'META', {})
