"""C06 - a value depends only on (parameters, point, time), not on history or batch."""
import hashlib, json, math, os, subprocess, sys, tempfile, time
import numpy as np
import hypothesis
from hypothesis import strategies as st, settings, HealthCheck, Phase
from hypothesis.stateful import RuleBasedStateMachine, Bundle, rule, initialize, run_state_machine_as_test

from ..core import Obligation, Out, VERIF, REPO, match_known, jsonable, exactpack_frame, _Stop
from .. import cat
from ..strat import uni, logu

META = dict(
    technique='Hypothesis rule-based state machine over interleaved constructor / call / mutator operations with a fresh-interpreter reference for every call; '
              'stateless batch metamorphic relations (singleton vs superset / subset / permutation / duplicates)',
    rule='histories = sequences (<= 12 steps quick, <= 30 thorough) of construct(spec), call(instance, batch, t), reconstruct, black-box-Noh public mutators on OTHER '
         'instances, drawn by a RuleBasedStateMachine over 40 solver specs weighted toward the module-global families (Guderley, RMTV, Su-Olson, radiative shocks, black-box Noh, '
         'Blake, Riemann, Sedov); oracle = every value returned by a call equals the value of the SAME call executed as the first ExactPack activity of a fresh interpreter '
         '(subprocess, cached per distinct call); batch layer: the value at a point in a singleton call equals its value inside supersets, subsets, permutations and batches '
         'with duplicates (exact class 1e-12, iterative 1e-6, documented resolution for Sedov / Mader), and - for every public solver class found with pkgutil, half of the cases with generated non-default parameters - the value in a singleton call equals the value inside a 2..12 point batch; non-trivial = a call preceded by a construct/call of another instance '
         'of the same module family or by a call of the same object with a different (batch, t); distinct = hash of the history',
    assumptions=['sequential interleavings in one interpreter (no threads)', 'documented batch dependence is respected: Sedov and the EP piston read max(x) (every batch carries the same largest point), Mader takes its cell width from the batch (only whole uniform grids are compared)', 'the reference of a mutated black-box-Noh instance itself is not asserted (its own tolerance is its parameter), only other instances'])

A4 = 4.0 * 4.0 * 5.67051e-5 / 2.99792458e10

# ---------------------------------------------------------------- solver specs (family = module sharing globals / class state)
SPECS = [
    dict(name='guderley-s3', fam='guderley', solver=cat.GUDERLEY, params=dict(geometry=3, gamma=3.0, rho0=1.0), pool=[0.2, 0.5, 0.9, 1.4], times=[0.4, 0.9], tol=1e-9),
    dict(name='guderley-c2', fam='guderley', solver=cat.GUDERLEY, params=dict(geometry=2, gamma=2.0, rho0=2.0), pool=[0.2, 0.5, 0.9, 1.4], times=[0.4, 0.9], tol=1e-9),
    dict(name='guderley-c3', fam='guderley', solver=cat.GUDERLEY, params=dict(geometry=2, gamma=3.0, rho0=1.0), pool=[0.2, 0.5, 0.9, 1.4], times=[0.4, 0.9], tol=1e-9),
    dict(name='guderley-s2', fam='guderley', solver=cat.GUDERLEY, params=dict(geometry=3, gamma=2.0, rho0=1.0), pool=[0.2, 0.5, 0.9, 1.4], times=[0.4, 0.9], tol=1e-9),
    dict(name='rmtv-default', fam='rmtv', solver=cat.RMTV, params={}, pool=[0.1, 0.3, 0.44, 0.46, 0.8, 0.95], times=[0.0], tol=1e-9),
    dict(name='rmtv-rf', fam='rmtv', solver=cat.RMTV, params=dict(rf=0.5, g0=2.0), pool=[0.1, 0.24, 0.26, 0.45, 0.6], times=[0.0], tol=1e-9),
    dict(name='suolson-default', fam='suolson', solver='exactpack.solvers.suolson.suolson.SuOlson', params={}, pool=[0.1, 0.5, 1.0, 2.0, 6.0, 12.0], times=[1e-10, 3e-10], tol=1e-9),
    dict(name='suolson-eps', fam='suolson', solver='exactpack.solvers.suolson.suolson.SuOlson', params=dict(alpha=A4 / 0.3, opac=2.0, trad_bc_ev=500.0), pool=[0.1, 0.5, 1.0, 5.0],
         times=[1e-10, 3e-10], tol=1e-9),
    dict(name='nED-1.2', fam='radshocks', solver=cat.RAD + 'nED_Solver', params=dict(M0=1.2), pool=[-0.03, -0.01, 0.001, 0.02], times=[0.0, 1e-9], tol=1e-9),
    dict(name='nED-2-LM', fam='radshocks', solver=cat.RAD + 'nED_Solver', params=dict(M0=2.0, problem='LM_nED'), pool=[-0.03, -0.01, 0.001, 0.02], times=[0.0, 1e-9], tol=1e-9),
    dict(name='ie-3', fam='radshocks', solver=cat.RAD + 'ie_Solver', params=dict(M0=3.0), pool=[-0.03, -0.01, 0.001, 0.02], times=[0.0, 1e-9], tol=1e-9),
    dict(name='ED-1.2', fam='radshocks', solver=cat.RAD + 'ED_Solver', params=dict(M0=1.2), pool=[-0.03, -0.01, 0.001, 0.02], times=[0.0, 1e-9], tol=1e-9),
    dict(name='bbnoh-planar', fam='bbnoh', solver=cat.BBNOH + 'PlanarNohBlackBox', params={}, eos=dict(cls='ideal_gas_eos', args=dict(gamma=5.0 / 3.0)),
         ic=dict(density=1, velocity=-1, pressure=0), guess=[3.8, 0.5, 0.3], pool=[0.05, 0.15, 0.4, 0.9], times=[0.6], tol=1e-9),
    dict(name='bbnoh-spherical', fam='bbnoh', solver=cat.BBNOH + 'SphericalNohBlackBox', params={}, eos=dict(cls='noble_abel_eos', args=dict(gamma=5.0 / 3.0, b=0.002)),
         ic=dict(density=1, velocity=-1, pressure=0), guess=[55.0, 0.5, 0.3], pool=[0.05, 0.15, 0.4, 0.9], times=[0.6], tol=1e-9),
    dict(name='bbnoh-general-cyl', fam='bbnoh', solver=cat.BBNOH + 'NohBlackBoxEos', params=dict(geometry=2), eos=dict(cls='ideal_gas_eos', args=dict(gamma=1.4)),
         ic=dict(density=1, velocity=-1, pressure=0, symmetry=1), guess=[34.0, 0.5, 0.2], pool=[0.05, 0.15, 0.4, 0.9], times=[0.6], tol=1e-9),
    dict(name='blake-default', fam='blake', solver='exactpack.solvers.blake.blake.Blake', params={}, pool=[0.1, 0.3, 0.6, 0.9], times=[1.6e-4, 8e-5], tol=1e-12),
    dict(name='blake-soft', fam='blake', solver='exactpack.solvers.blake.blake.Blake', params=dict(shear_mod=5e9, poisson_ratio=0.35, pressure_scale=1e5), pool=[0.1, 0.3, 0.6, 0.9],
         times=[1.6e-4, 8e-5], tol=1e-12),
    dict(name='igeos-sod', fam='riemann', solver=cat.RIEMANN_IG, params={}, pool=[0.1, 0.4, 0.6, 0.8, 0.95], times=[0.25, 0.1], tol=1e-12),
    dict(name='igeos-moving', fam='riemann', solver=cat.RIEMANN_IG, params=dict(rl=2.0, ul=0.5, pl=3.0, gl=1.6, rr=0.5, ur=-0.3, pr=0.4, gr=1.3), pool=[0.1, 0.4, 0.6, 0.8, 0.95],
         times=[0.25, 0.1], tol=1e-12),
    dict(name='geneos-sod', fam='riemann', solver=cat.RIEMANN_GEN, params=dict(num_int_pts=401, num_x_pts=801), pool=[0.1, 0.4, 0.6, 0.8], times=[0.25, 0.1], tol=1e-9),
    dict(name='geneos-sod-jwl', fam='riemann', solver=cat.RIEMANN_GEN, params=dict(num_int_pts=401, num_x_pts=801, problem='JWL', A=8.545, B=0.205, R1=4.6, R2=1.35, r0=1.84, e0=0.0),
         pool=[0.1, 0.4, 0.6, 0.8], times=[0.25, 0.1], tol=1e-9),
    dict(name='sedov-spherical', fam='sedov', solver='exactpack.solvers.sedov.SphericalSedov', params={}, pool=[0.2, 0.5, 0.8, 0.95, 1.2], times=[1.0, 0.5], tol=1e-9, fixed_far=True),
    dict(name='sedov-planar-omega', fam='sedov', solver=cat.SEDOV, params=dict(geometry=1, gamma=1.6, omega=0.3, eblast=0.2), pool=[0.2, 0.5, 0.8, 0.95, 1.2], times=[1.0, 0.5], tol=1e-9,
         fixed_far=True),
    dict(name='sedov-vacuum', fam='sedov', solver=cat.SEDOV, params=dict(geometry=3, gamma=1.4, omega=2.4), pool=[0.1, 0.2, 0.5, 0.8, 0.95, 1.2], times=[1.0, 0.5], tol=1e-9,
         fixed_far=True),
    dict(name='sedov-singular', fam='sedov', solver=cat.SEDOV, params=dict(geometry=3, gamma=1.4, omega=7.0 / 3.0), pool=[0.2, 0.5, 0.8, 0.95, 1.2], times=[1.0, 0.5], tol=1e-9,
         fixed_far=True),
    dict(name='ehep', fam='ehep', solver=cat.EHEP, params={}, pool=[0.02, 0.4, 0.0, 0.9, 1.0, 1.3, -0.1, 1.6, 1.9, 2.6, 3.0, 10.5, 0.2], times=[2.0, 0.7, 0.5], tol=1e-13),
    dict(name='ehep-piston', fam='ehep', solver=cat.EHEP, params=dict(up=0.1), pool=[0.02, 0.15, 0.4, 0.9, 1.3, 1.9, 2.6], times=[2.0, 0.7], tol=1e-13),
    dict(name='mader', fam='mader', solver=cat.MADER, params={}, pool=[0.0, 1.0, 2.0, 3.0, 4.0, 5.0], times=[6.25e-6, 3e-6], tol=1e-12, whole_pool=True),
    dict(name='piston', fam='piston', solver=cat.PISTON, params={}, pool=[0.05, 0.3, 0.45, 0.6, 0.9, 1.0], times=[1.2, 0.75], tol=1e-13, fixed_far=True),   # (documented: t <= max(x) / wv_el)
    dict(name='noh2', fam='noh', solver=cat.NOH2 + 'Noh2', params=dict(geometry=3, gamma=1.4), pool=[0.05, 0.2, 0.5, 1.0], times=[0.3, 0.6], tol=1e-13),
    dict(name='kenamond2', fam='kenamond', solver=cat.KEN2, params={}, pool=[[4.0, 1.0], [-4.0, -3.0], [0.0, -6.0], [1.0, 1.0]], times=[0.0], tol=1e-13),
    dict(name='dsd-cyl', fam='dsd', solver=cat.DSDCYL, params={}, pool=[[1.5, 0.5], [-3.0, 1.0], [0.5, -4.0]], times=[0.0], tol=1e-13),
    dict(name='rod1d', fam='heat', solver=cat.ROD, params=dict(Nsum=60), pool=[0.0, 0.3, 0.9, 1.4, 2.0], times=[0.1, 0.4], tol=1e-12),
    dict(name='riemann2d-fan', fam='riemann2d', solver='exactpack.solvers.riemann2D_2section_steadystate.ep_riemann2D_2section_steadystate.IGEOS_Solver',
         params=dict(bottom_state=[1.0, 1.0, 2.0, -5.0, 1.4], top_state=[0.25, 1.0, 2.0, 0.0, 1.4]),
         pool=[[0.642787609687, -0.766044443119], [0.820151875874, -0.572145873446], [0.882947592859, -0.469471562786], [0.931202211771, -0.36450300519], [0.996194698092, 0.087155742748], [0.707106781187, 0.707106781187]], times=[0.0], tol=1e-9),
    dict(name='cylsandwich-a', fam='cylsandwich', solver=cat.HEAT + 'cylindrical_sandwich.CylindricalSandwich', params=dict(a=0.25, b=0.85, Nsum=3, Msum=4),
         pool=[[0.3, 0.5, 0.7, 0.8], [0.2, 0.6, 1.0, 1.3]], times=[0.05, 0.2], tol=1e-12, whole_pool=True),
    dict(name='cylsandwich-b', fam='cylsandwich', solver=cat.HEAT + 'cylindrical_sandwich.CylindricalSandwich', params=dict(a=0.30, b=0.90, Nsum=3, Msum=4),
         pool=[[0.35, 0.5, 0.7, 0.85], [0.2, 0.6, 1.0, 1.3]], times=[0.05, 0.2], tol=1e-12, whole_pool=True),
    dict(name='noh-cyl', fam='noh', solver=cat.NOH + 'Noh', params=dict(geometry=2, gamma=1.4, rho0=2.0, u0=-3.0), pool=[0.05, 0.2, 0.5, 1.0], times=[0.3, 0.6], tol=1e-13),
    dict(name='cog8', fam='cog', solver='exactpack.solvers.cog.cog8.Cog8', params=dict(geometry=2, alpha=-1.5, beta=2.0), pool=[0.3, 0.7, 1.1], times=[0.4, 0.9], tol=1e-13),
    dict(name='sdrz', fam='sdrz', solver=cat.SDRZ, params={}, pool=[0.05, 0.2, 0.35, 0.42], times=[0.5, 1.3], tol=1e-12),
    dict(name='kenamond3', fam='kenamond', solver=cat.KEN3, params={}, pool=[[4.0, 1.0], [-4.0, -3.0], [0.0, -6.0], [3.5, 3.5]], times=[0.0], tol=1e-13),
]
FAMILIES = sorted(set(sp['fam'] for sp in SPECS)) + ['bbnoh', 'bbnoh', 'radshocks', 'guderley', 'rmtv', 'suolson']
BATCHES = [None, 'rev', 'sub', 'single', 'dup']       # selections of the pool


def batch_points(spec, sel, k):
    pool = list(spec['pool'])
    if sel == 'rev':
        pts = pool[::-1]
    elif sel == 'sub':
        pts = pool[k % 2::2]
    elif sel == 'single':
        pts = [pool[k % len(pool)]]
    elif sel == 'dup':
        pts = pool + [pool[k % len(pool)]]
    else:
        pts = pool
    if spec.get('whole_pool'):     # Mader: the cell width is taken from the batch (documented), so every batch is the whole (uniform) grid
        return list(spec['pool'])
    if spec.get('fixed_far'):      # Sedov: documented grid dependence on max(r): every batch carries the same largest point
        pts = [p for p in pts if p != max(pool)] + [max(pool)]
    return pts


def call_spec(spec, pts, t):
    d = {k: spec[k] for k in ('solver', 'params', 'eos', 'ic', 'guess') if k in spec}
    d.update(pts=pts, t=t)
    return d


HIST_TOL = 1e-12       # the reference is the identical call: anything but round-off-identical values is history dependence


# ---------------------------------------------------------------- fresh-interpreter reference (cached on disk for the duration of the run)
def _cache_dir():
    d = os.path.join(os.environ.get('VP_SCRATCH') or os.path.join(tempfile.gettempdir(), 'vp_c06_%d' % os.getppid()), 'c06ref')
    os.makedirs(d, exist_ok=True)
    return d


def reference(cs):
    key = hashlib.sha1(json.dumps(cs, sort_keys=True).encode()).hexdigest()
    fn = os.path.join(_cache_dir(), key + '.json')
    if os.path.exists(fn):
        try:
            return json.load(open(fn))
        except Exception:  # partially written by a sibling worker: recompute
            pass
    env = dict(os.environ, PYTHONPATH=os.pathsep.join([REPO, VERIF, os.path.join(VERIF, '.deps')]), MPLBACKEND='Agg', PYTHONHASHSEED='0')
    r = subprocess.run([sys.executable, '-W', 'ignore', '-m', 'vp.c06ref', json.dumps(cs)], capture_output=True, text=True, env=env, cwd=VERIF, timeout=600)
    line = [l for l in r.stdout.splitlines() if l.startswith('{')]
    if not line:
        raise RuntimeError('reference interpreter produced no result: ' + r.stderr[-500:])
    res = json.loads(line[-1])
    tmp = fn + '.%d.tmp' % os.getpid()
    with open(tmp, 'w') as f:
        json.dump(res, f)
    os.replace(tmp, fn)
    return res


def compare_with_reference(o, spec, sol, ref, regime, tol=HIST_TOL):
    if 'error' in ref:
        o.fail('fresh interpreter evaluates the same call', regime, error=ref['error'])
        return
    for k in sol.dtype.names:
        v = np.asarray(sol[k])
        if v.dtype.kind != 'f':
            o.true('%s equals its fresh-interpreter value' % k, [str(x) for x in v] == ref['fields'].get(k), regime=regime)
            continue
        w = np.array(ref['fields'][k], float)
        sc = max(np.max(np.abs(w[np.isfinite(w)])) if np.any(np.isfinite(w)) else 0.0, 1e-300)
        o.close('%s equals its fresh-interpreter value' % k, v.astype(float), w, 0.0, atol=tol * sc, regime=regime)


# ---------------------------------------------------------------- the state machine
def make_instance(spec, shared):
    """construct as a user script would: the black-box Noh wrappers of one history receive the SAME initial-conditions dict and EOS object"""
    if spec['fam'] != 'bbnoh':
        return cat.make_solver(call_spec(spec, [], 0.0))
    key = json.dumps(spec['eos'], sort_keys=True)
    if key not in shared:
        shared[key] = cat.make_eos(spec['eos'])
    ic = shared.setdefault('ic', dict(density=1, velocity=-1, pressure=0))
    c = cat.cls_of(spec['solver'])
    if spec['solver'].endswith('.NohBlackBoxEos'):
        s = cat.quiet(c, shared[key], dict(spec['ic']), **spec['params'])
    else:
        s = cat.quiet(c, shared[key], ic)
    s.set_new_solver_initial_guess(list(spec['guess']))
    return s


class _Ctx:
    coll = None
    last_fail = None
    steps = 0
    history = []
    first_fail = None
    shrink_s = 40


class HistoryMachine(RuleBasedStateMachine):
    solvers = Bundle('solvers')

    def __init__(self):
        super().__init__()
        self.history = _Ctx.history = []
        self.shared = {}
        self.mutated = set()
        self.last_call = {}          # instance id -> (sel, k, t)
        self.fam_seen = []           # (family, instance id) in order of activity

    @initialize(f=st.sampled_from(FAMILIES))
    def focus(self, f):
        # most instances of one history come from one module family, so that instances that could share module / class state actually meet
        self.family = f

    @rule(target=solvers, i=st.integers(0, len(SPECS) - 1), j=st.integers(0, 7), other=st.integers(0, 3))
    def construct(self, i, j, other):
        if other != 0:
            own = [n for n, sp in enumerate(SPECS) if sp['fam'] == self.family]
            i = own[j % len(own)]
        return self._construct(i)

    def _construct(self, i):
        spec = SPECS[i]
        s = make_instance(spec, self.shared)
        inst = dict(i=i, obj=s, id=len(self.history))
        self.history.append(['construct', spec['name']])
        self.fam_seen.append((spec['fam'], inst['id']))
        return inst

    @rule(inst=solvers)
    def reconstruct_same(self, inst):
        spec = SPECS[inst['i']]
        inst['obj'] = make_instance(spec, self.shared)
        self.mutated.discard(inst['id'])
        self.history.append(['reconstruct', inst['id']])

    @rule(inst=solvers, tol=st.sampled_from([1e-2, 1e-3, 1e-13]), guess_scale=st.sampled_from([1.0, 1.5]))
    def bbnoh_mutate(self, inst, tol, guess_scale):
        spec = SPECS[inst['i']]
        if spec['fam'] != 'bbnoh':
            return
        inst['obj'].set_new_solver_tolerance(tol)
        inst['obj'].set_new_solver_initial_guess([g * guess_scale for g in spec['guess']])
        self.mutated.add(inst['id'])
        self.history.append(['bbnoh_mutate', inst['id'], tol, guess_scale])
        self.fam_seen.append((spec['fam'], inst['id']))

    _sel = dict(sel=st.sampled_from(BATCHES), k=st.integers(0, 5), ti=st.integers(0, 1))

    @rule(inst=solvers, **_sel)
    def call(self, inst, sel, k, ti):
        self._do_call(inst, sel, k, ti)

    @rule(inst=solvers, sel2=st.sampled_from(BATCHES), k2=st.integers(0, 5), ti2=st.integers(0, 1), **_sel)
    def call_pair(self, inst, sel, k, ti, sel2, k2, ti2):
        """two calls on the same object: no state may be carried from the first to the second"""
        self._do_call(inst, sel, k, ti)
        self._do_call(inst, sel2, k2, ti2)

    @rule(target=solvers, inst=solvers, j=st.integers(0, 7), sel2=st.sampled_from(BATCHES), k2=st.integers(0, 5), ti2=st.integers(0, 1), **_sel)
    def sibling_then_call(self, inst, j, sel, k, ti, sel2, k2, ti2):
        """construct and call a sibling instance of the same module family (other parameters), then call the first one again"""
        fam = SPECS[inst['i']]['fam']
        own = [n for n, sp in enumerate(SPECS) if sp['fam'] == fam]
        sib = self._construct(own[j % len(own)])
        self._do_call(sib, sel2, k2, ti2)
        self._do_call(inst, sel, k, ti)
        return sib

    def _do_call(self, inst, sel, k, ti):
        coll = _Ctx.coll
        if coll.deadline and time.time() > coll.deadline:
            coll.inconclusive = True
            raise _Stop()
        if _Ctx.first_fail is not None and time.time() > _Ctx.first_fail + _Ctx.shrink_s:
            raise _Stop()          # shrinking budget used up: the smallest failing history seen so far is reported
        spec = SPECS[inst['i']]
        t = spec['times'][ti % len(spec['times'])]
        pts = batch_points(spec, sel, k)
        self.history.append(['call', inst['id'], sel, k, ti])
        prev_same_family = any(f == spec['fam'] and j != inst['id'] for f, j in self.fam_seen)
        prev_other_call = inst['id'] in self.last_call and self.last_call[inst['id']] != (sel, k, ti)
        self.fam_seen.append((spec['fam'], inst['id']))
        self.last_call[inst['id']] = (sel, k, ti)
        o = Out()
        o.label(*[l for l in (spec['name'], 'batch-' + str(sel), 'after-other-instance-of-family' if prev_same_family else '',
                              'after-different-call-on-same-object' if prev_other_call else '', 'own-mutators-used' if inst['id'] in self.mutated else '') if l])
        case = dict(solver=spec['solver'], spec=spec['name'], history=[list(h) for h in self.history])
        compare_call(o, spec, inst['obj'], pts, t, inst['id'] in self.mutated)
        o.nontrivial = bool(prev_same_family or prev_other_call)
        coll.record(case, o)
        new = [f for f in o.fails if match_known('C06', 'history-machine', case, f) is None]
        if new:
            if _Ctx.first_fail is None:
                _Ctx.first_fail = time.time()
            raise AssertionError('history dependence: ' + new[0]['relation'])


def compare_call(o, spec, obj, pts, t, mutated):
    try:
        sol = cat.quiet(obj, np.asarray(pts, float), t)
    except Exception as e:  # noqa
        if mutated:
            return
        ref = reference(call_spec(spec, pts, t))
        if 'error' not in ref:
            o.fail('call in this history raises although the same call succeeds in a fresh interpreter', spec['name'], error='%s: %s' % (type(e).__name__, str(e)[:200]))
        else:
            o.checks += 1
        return
    if not mutated:
        compare_with_reference(o, spec, sol, reference(call_spec(spec, pts, t)), spec['name'])


def run_machine(coll, n, seed, tier):
    _Ctx.coll = coll
    _Ctx.first_fail = None
    _Ctx.shrink_s = 40 if tier == 'quick' else 240
    steps = 16 if tier == 'quick' else 40
    stg = settings(max_examples=n, stateful_step_count=steps, deadline=None, database=None, derandomize=False, report_multiple_bugs=False, print_blob=False,
                   phases=[Phase.generate, Phase.shrink], suppress_health_check=list(HealthCheck))
    try:
        run_state_machine_as_test(hypothesis.seed(seed)(HistoryMachine), settings=stg)
    except AssertionError:
        pass          # already recorded through the collector (the smallest recorded failing history is the shrunk one)
    except hypothesis.errors.Flaky:
        # state that leaks from one generated history into the next makes a failing history pass (or fail differently) when Hypothesis re-runs it:
        # the failure itself has been recorded; without a recorded failure this is a harness problem
        if not coll.buckets:
            raise
    except Exception as e:  # noqa   an ExactPack exception outside a call step (constructor / mutator)
        import sys
        fr = exactpack_frame(sys.exc_info()[2])
        if fr is None:
            raise
        o = Out()
        o.fail('exception:%s@%s' % (type(e).__name__, fr), '', message=str(e)[:300])
        coll.record(dict(solver='history-machine', history=_Ctx.history), o)


def replay_history(case):
    """plain re-execution of a recorded history (no Hypothesis): the final call is compared with its fresh-interpreter reference"""
    o = Out()
    insts = {}          # instance ids are positions in the history at construction time
    mutated = set()
    shared = {}
    last = None
    for pos, h in enumerate(case['history']):
        if h[0] == 'construct':
            i = [n for n, sp in enumerate(SPECS) if sp['name'] == h[1]][0]      # specs are referred to by name in recorded histories
            spec = SPECS[i]
            insts[pos] = dict(i=i, obj=make_instance(spec, shared))
        elif h[0] == 'reconstruct':
            spec = SPECS[insts[h[1]]['i']]
            insts[h[1]]['obj'] = make_instance(spec, shared)
            mutated.discard(h[1])
        elif h[0] == 'bbnoh_mutate':
            spec = SPECS[insts[h[1]]['i']]
            insts[h[1]]['obj'].set_new_solver_tolerance(h[2])
            insts[h[1]]['obj'].set_new_solver_initial_guess([g * h[3] for g in spec['guess']])
            mutated.add(h[1])
        elif h[0] == 'call':
            spec = SPECS[insts[h[1]]['i']]
            t = spec['times'][h[4] % len(spec['times'])]
            pts = batch_points(spec, h[2], h[3])
            last = pos == len(case['history']) - 1
            if last:
                compare_call(o, spec, insts[h[1]]['obj'], pts, t, h[1] in mutated)
            else:
                try:
                    cat.quiet(insts[h[1]]['obj'], np.asarray(pts, float), t)
                except Exception:  # noqa  (judged at the step where it happened)
                    pass
    o.nontrivial = True
    return o


# ---------------------------------------------------------------- stateless batch layer
@st.composite
def batch_case(draw):
    i = draw(st.integers(0, len(SPECS) - 1))
    spec = SPECS[i]
    return dict(solver=spec['solver'], spec=spec['name'], ti=draw(st.integers(0, 1)), k=draw(st.integers(0, 5)), sel=draw(st.sampled_from(['rev', 'sub', 'dup'])),
                j=draw(st.integers(0, 5)))


def check_batch(case):
    o = Out()
    spec = [sp for sp in SPECS if sp['name'] == case['spec']][0]
    t = spec['times'][case['ti'] % len(spec['times'])]
    s = cat.make_solver(call_spec(spec, [], 0.0))
    pool = batch_points(spec, None, 0)
    pts = batch_points(spec, case['sel'], case['k'])
    full = cat.quiet(s, np.asarray(pool, float), t)
    part = cat.quiet(s, np.asarray(pts, float), t)
    o.label(spec['name'], 'batch-' + case['sel'])
    key = lambda p: tuple(p) if isinstance(p, list) else p
    idx = {key(p): n for n, p in enumerate(pool)}
    tol = max(spec['tol'], 1e-12)
    for n, p in enumerate(pts):
        m = idx[key(p)]
        for k in full.dtype.names:
            a, b = np.asarray(part[k])[n], np.asarray(full[k])[m]
            if np.asarray(a).dtype.kind == 'f':
                sc = max(float(np.nanmax(np.abs(np.asarray(full[k], float)))), 1e-300)
                o.close('%s at a point is the same in every batch containing it' % k, float(a), float(b), 0.0, atol=tol * sc, regime=spec['name'])
    # singleton
    if spec.get('whole_pool'):
        o.nontrivial = True
        return o
    pj = pool[case['j'] % len(pool)]
    single_pts = [pj] + ([max(spec['pool'])] if spec.get('fixed_far') and pj != max(spec['pool']) else [])
    single = cat.quiet(s, np.asarray(single_pts, float), t)
    m = idx[key(pj)]
    for k in full.dtype.names:
        a, b = np.asarray(single[k])[0], np.asarray(full[k])[m]
        if np.asarray(a).dtype.kind == 'f':
            sc = max(float(np.nanmax(np.abs(np.asarray(full[k], float)))), 1e-300)
            o.close('%s in a singleton call equals its value inside the full batch' % k, float(a), float(b), 0.0, atol=tol * sc, regime=spec['name'])
    o.nontrivial = True
    return o


@st.composite
def mader_batch_case(draw):
    p = draw(cat.mader_params())
    return dict(solver=cat.MADER, params=p, t=6.25e-6 * draw(logu(0.3, 3.0)), n=draw(st.integers(40, 200)), m=draw(st.integers(2, 5)))


def check_mader_batch(case):
    """Mader returns cell averages over a cell width taken from the batch: two uniform grids sharing points may differ by the documented resolution dx |f'|"""
    o = Out()
    P = case['params']
    L = P['d_cj'] * case['t']
    n, m = case['n'], case['m']
    x1 = np.linspace(0.0, L, n * m + 1)
    x2 = x1[::m]
    s = cat.make_solver(case)
    A, B = cat.quiet(s, x1, case['t']), cat.quiet(s, x2, case['t'])
    dx2 = (x2[-1] - x2[0]) / len(x2)
    g = P['gamma']
    xdet = np.asarray(B['xdet'], float)
    u_cj, c_cj = P['d_cj'] / (g + 1), g * P['d_cj'] / (g + 1)
    um = (g - 1) * (u_cj - 2 * c_cj / (g - 1)) / (g + 1)
    xp = 0.5 * (g + 1) * case['t'] * (P['u_piston'] - um)
    keep = np.abs(xdet - xp) > 1.5 * dx2
    for k in ('velocity', 'pressure', 'sound_speed', 'density'):
        a, b = np.asarray(A[k], float)[::m][keep], np.asarray(B[k], float)[keep]
        slope = np.max(np.abs(np.gradient(np.asarray(A[k], float), x1)))
        o.close('%s on a coarser uniform grid agrees within the documented resolution dx |f\'|' % k, b, a, 0.0, atol=1.0 * dx2 * slope + 1e-12 * np.max(np.abs(a)))
    o.nontrivial = True
    return o


# ---------------------------------------------------------------- every public class: singleton call vs whole batch
@st.composite
def all_classes_case(draw):
    from .. import allsolvers
    paths = [p for p in allsolvers.all_solver_classes() if allsolvers.SLOW.get(p, 0) < 10 and p not in allsolvers.UNCONSTRUCTIBLE and p not in allsolvers.UNUSABLE
             and p not in allsolvers.STRUCTURED]
    pk = sorted(set(p.split('.')[2] for p in paths))
    pkg = draw(st.sampled_from(pk))
    path = draw(st.sampled_from([p for p in paths if p.split('.')[2] == pkg]))
    return dict(solver=path, u=draw(st.lists(uni(0.0, 0.999), min_size=16, max_size=16)), j=draw(st.integers(0, 11)))


def check_all_classes(case):
    from .. import allsolvers
    o = Out()
    path = case['solver']
    rec = allsolvers.recipe(path, case['u'])
    o.label(path.split('.')[2])
    if rec is None or path.endswith('.Mader'):       # Mader: cell width from the batch (documented; see mader-grid-resolution)
        return o
    if path.rsplit('.', 1)[1] in ('Rectangle', 'Hutchens2', 'CylindricalSandwich'):
        o.label('skipped:point-layout-finding-KF-C05-heat-2d-point-layout')      # these read an (N,2) request as (2,N): recorded under C05
        return o
    s = allsolvers.construct(path, rec['kwargs'], rec['special'])
    pts = np.array(rec['points'], float)
    N = pts.shape[1] if rec['layout'] == '2xN' else len(pts)
    if N < 2:
        return o
    j = case['j'] % N
    far = None
    if '.sedov' in path or '.ep_piston.' in path:     # documented dependence on max(x): the singleton call carries the same largest point
        far = int(np.argmax(pts))
    full = cat.quiet(s, pts, rec['t'])
    if rec['layout'] == '2xN':
        single_pts = pts[:, [j]]
    elif far is not None and far != j:
        single_pts = pts[[j, far]]
    else:
        single_pts = pts[[j]]
    single = cat.quiet(s, single_pts, rec['t'])
    tol = 1e-6 if rec['batch_dependent'] else 1e-9
    for k in full.dtype.names:
        a, b = np.asarray(single[k])[0], np.asarray(full[k])[j]
        if np.asarray(a).dtype.kind == 'f':
            fk = np.asarray(full[k], float)
            sc = max(float(np.nanmax(np.abs(fk))) if np.any(np.isfinite(fk)) else 0.0, 1e-300)
            if not (np.isnan(a) and np.isnan(b)):
                o.close('%s in a singleton call equals its value inside the batch' % k, float(a), float(b), 0.0, atol=tol * sc, regime=path.rsplit('.', 1)[1])
        else:
            o.true('%s in a singleton call equals its value inside the batch' % k, str(a) == str(b), regime=path.rsplit('.', 1)[1])
    o.nontrivial = True
    return o


OBLIGATIONS = [
    Obligation('history-machine', runner=run_machine, check=replay_history, quick=192, thorough=1600, max_shards=16, min_per_shard=2),
    Obligation('batch-independence', batch_case(), check_batch, quick=240, thorough=6000, min_per_shard=4),
    Obligation('mader-grid-resolution', mader_batch_case(), check_mader_batch, quick=100, thorough=3000),
    Obligation('all-classes-singleton-vs-batch', all_classes_case(), check_all_classes, quick=600, thorough=20000),
]
OBLIGATIONS[0].cost = 100.0
OBLIGATIONS[0].budget_s = {'quick': 420, 'thorough': 3300}
