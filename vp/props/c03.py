"""C03 - thermodynamic fields returned together satisfy the declared EOS."""
import math
import numpy as np
from hypothesis import strategies as st, assume

from ..core import Obligation, Out
from .. import cat, cogcat
from ..strat import logu, uni, pos

TOL = 1e-10

META = dict(
    technique='Hypothesis-generated parameter/point/time cases per solver family; algebraic EOS identities as oracle',
    rule='cases = (solver class, admissible parameters, time, points in every region incl. both sides of '
         'discontinuities); oracle = the EOS identity the problem declares, evaluated on the fields of ONE public '
         'call; non-trivial = gamma / EOS constants / geometry differ from the class defaults and at least one '
         'point has non-zero pressure; distinct = hash of (solver, params, t, points) rounded to 12 digits',
    assumptions=['identities are compared in product form (p = (g-1) rho e) so that cold/vacuum states are checked, not skipped',
                 'interpolating solvers (GenEOS Riemann, SDRZ, radiative shocks) are compared at/away from table '
                 'nodes as stated per obligation; tolerance classes per DESIGN 2.5'])


def _defaults_differ(case):
    c = cat.cls_of(case['solver'])
    for k, v in case.get('params', {}).items():
        d = getattr(c, k, None)
        if isinstance(v, float) and isinstance(d, (int, float)):
            if abs(v - d) > 1e-9 * max(1, abs(d)):
                return True
        elif d != v:
            return True
    return False


# ------------------------------------------------------------------ Coggeshall
def check_cog(case):
    o = Out()
    n, geom = case['cog'], case['geometry']
    sol = cat.run(case)
    g = cogcat.gamma_eff(n, case['params'], geom)
    G = case['params']['Gamma']
    rho, T, p, e = (np.asarray(sol[k], float) for k in ('density', 'temperature', 'pressure', 'specific_internal_energy'))
    o.label('cog%d' % n, 'geom%d' % geom)
    if not (np.all(np.isfinite(rho)) and np.all(np.isfinite(T))):
        o.label('nonfinite-skip')
        return o
    o.close('p=Gamma*rho*T', p, G * rho * T, TOL)
    o.close('e=Gamma*T/(gamma-1)', e * (g - 1), G * T, TOL)
    o.close('p=(gamma-1)*rho*e', p, (g - 1) * rho * e, TOL)
    o.nontrivial = bool(np.any(p != 0)) and _defaults_differ(case)
    return o


# ------------------------------------------------------------------ gamma-law helper
def gamma_law(o, sol, g, tol=TOL, regime='', c_name=None, scale_p=None):
    rho, p, e = (np.asarray(sol[k], float) for k in ('density', 'pressure', 'specific_internal_energy'))
    o.close('p=(gamma-1)*rho*e', p, (g - 1) * rho * e, tol, regime=regime, scale=scale_p)
    if c_name:
        c = np.asarray(sol[c_name], float)
        o.close('c^2*rho=gamma*p', c * c * rho, g * p, tol, regime=regime, scale=scale_p)
    return rho, p, e


def check_noh(case):
    o = Out()
    sol = cat.run(case)
    x = np.asarray(case['x'])
    o.label('geom%d' % case['geometry'], 'post' if np.any(x < case['shock']) else 'pre-only')
    rho, p, e = gamma_law(o, sol, case['gamma'], regime='post-shock' if np.any(x < case['shock']) else 'pre')
    o.nontrivial = bool(np.any(p != 0)) and abs(case['gamma'] - 5.0 / 3.0) > 1e-9
    return o


def check_noh2(case):
    o = Out()
    sol = cat.run(case)
    o.label('geom%d' % case['geometry'], case['solver'].rsplit('.', 1)[1])
    gamma_law(o, sol, case['gamma'])
    if 'temperature' in sol.dtype.names:     # Noh2Cog: Cog EOS with Gamma=1
        o.close('e=Gamma*T/(gamma-1)', np.asarray(sol['specific_internal_energy']) * (case['gamma'] - 1),
                np.asarray(sol['temperature']) * 1.0, TOL)
    o.nontrivial = _defaults_differ(case)
    return o


@st.composite
def sedov_case(draw):
    c = draw(cat.sedov_params(types=('standard', 'standard', 'vacuum')))
    c['t'] = draw(logu(0.05, 5.0))
    c['fr'] = draw(st.lists(uni(0.0, 1.3), min_size=2, max_size=8))
    return c


def check_sedov(case):
    o = Out()
    s = cat.make_solver(case)
    # shock radius from the public attribute set by a first call
    cat.quiet(s, np.array([1.0]), case['t'])
    r2 = float(s.r2)
    x = np.array(sorted(set([r2 * f for f in case['fr']] + [r2 * 1.3])))
    case['_x'] = x.tolist()
    sol = cat.quiet(s, x, case['t'])
    o.label('geom%d' % case['geometry'], case['kind'])
    # inside the evacuated core of a vacuum-type solution rho = p = 0 exactly and e, c are 0/0
    # (whether NaN may be returned there is C20's question, not an EOS question): skip those points
    hole = (np.asarray(sol['density']) == 0) & (np.asarray(sol['pressure']) == 0)
    if hole.any():
        o.label('vacuum-hole-points-skipped')
        sol = sol[~hole]
    if len(sol) == 0:
        return o
    rho, p, e = gamma_law(o, sol, case['gamma'], c_name='sound_speed')
    o.nontrivial = bool(np.any(p > 0)) and _defaults_differ(case)
    return o


# ------------------------------------------------------------------ Riemann
def check_riemann_ig(case):
    o = Out()
    P = case['params']
    sol = cat.run(case)
    x = np.asarray(sol['position'], float)
    rho, p, e = (np.asarray(sol[k], float) for k in ('density', 'pressure', 'specific_internal_energy'))
    o.label(case['pattern'], 'gl!=gr' if P['gl'] != P['gr'] else 'gl==gr')
    fit_l = np.abs(p - (P['gl'] - 1) * rho * e) <= 1e-9 * np.abs(p)
    fit_r = np.abs(p - (P['gr'] - 1) * rho * e) <= 1e-9 * np.abs(p)
    o.true('p=(gamma-1)*rho*e (left or right gamma)', bool(np.all(fit_l | fit_r)), regime=case['pattern'],
           worst=float(np.max(np.minimum(np.abs(p - (P['gl'] - 1) * rho * e), np.abs(p - (P['gr'] - 1) * rho * e)) / np.abs(p))))
    only_l = x[fit_l & ~fit_r]
    only_r = x[fit_r & ~fit_l]
    if only_l.size and only_r.size:
        o.true('left-gamma points lie left of right-gamma points', float(only_l.max()) < float(only_r.min()), regime=case['pattern'])
    o.nontrivial = (P['gl'] != 1.4 or P['gr'] != 1.4) and (P['ul'] != P['ur'] or P['gl'] != P['gr'])
    return o


@st.composite
def riemann_gen_case(draw):
    c = draw(cat.riemann_case(solver='gen', n_min=4, n_max=10))
    return c


def check_riemann_gen(case):
    """general-EOS solver on ideal-gas data: values are interpolated on the internal grid,
    so points within 2 grid cells of a wave are excluded (transition cells mix two states)"""
    o = Out()
    P = case['params']
    s = cat.make_solver(case)
    sol = cat.run(case, solver=s)
    grid = np.asarray(s.x, float)
    # ... plus a regular sweep over all regions, taken AT nodes of the solver's own table (public attribute x), where rho, p and e are its
    # own mutually consistent values and not three separately interpolated ones
    inside = grid[(grid > P['xd0'] - 1.1 * case['span']) & (grid < P['xd0'] + 1.1 * case['span'])]
    if inside.size > 60:
        inside = inside[::max(1, inside.size // 60)]
    if inside.size:
        sol = cat.run(case, solver=s, x=np.concatenate([np.asarray(case['x'], float), inside]))
    x = np.asarray(sol['position'], float)
    cell = (grid.max() - grid.min()) / P['num_x_pts']
    waves = P['xd0'] + case['t'] * np.asarray(s.Vregs, float)
    keep = np.all(np.abs(x[:, None] - waves[None, :]) > 2.5 * cell, axis=1)
    o.label(case['pattern'], 'kept%d' % int(keep.sum()))
    if not keep.any():
        return o
    rho, p, e = (np.asarray(sol[k], float)[keep] for k in ('density', 'pressure', 'specific_internal_energy'))
    xc = P['xd0'] + case['t'] * case['ustar']
    g = np.where(x[keep] < xc, P['gl'], P['gr'])
    o.close('p=(gamma-1)*rho*e', p, (g - 1) * rho * e, 2e-5, regime=case['pattern'])
    o.nontrivial = (P['gl'] != 1.4 or P['gr'] != 1.4 or P['ul'] != P['ur'])
    return o


def jwl_f(r, g, A, B, R1, R2, r0):
    G = g - 1.0
    R1r, R2r = R1 * r0 / r, R2 * r0 / r
    return A * (1 - G / R1r) * np.exp(-R1r) + B * (1 - G / R2r) * np.exp(-R2r)


@st.composite
def riemann_jwl_case(draw):
    base = dict(draw(st.sampled_from([cat.JWL_SHYUE, cat.JWL_LEE])))
    for k in ('rl', 'pl', 'rr', 'pr'):
        base[k] *= draw(uni(0.85, 1.2))
    xd0 = 50.0
    p = dict(base, xmin=0.0, xd0=xd0, xmax=100.0, problem='JWL', num_int_pts=1001, num_x_pts=2001)
    t = draw(uni(4.0, 15.0))
    fr = draw(st.lists(uni(-1.0, 1.0), min_size=4, max_size=10))
    return dict(solver=cat.RIEMANN_GEN, params=p, t=t, fr=fr)


def check_riemann_jwl(case):
    o = Out()
    P = case['params']
    s = cat.make_solver(case)
    cat.quiet(s, np.array([P['xd0']]), case['t'])
    V = np.asarray(s.Vregs, float)
    span = max(abs(V)) * case['t']
    x = np.array([P['xd0'] + f * 1.2 * span for f in case['fr']])
    sol = cat.quiet(s, x, case['t'])
    grid = np.asarray(s.x, float)
    cell = (grid.max() - grid.min()) / P['num_x_pts']
    waves = P['xd0'] + case['t'] * V
    keep = np.all(np.abs(x[:, None] - waves[None, :]) > 2.5 * cell, axis=1)
    o.label(s.soln_type, 'kept%d' % int(keep.sum()))
    if not keep.any():
        return o
    rho, p, e = (np.asarray(sol[k], float)[keep] for k in ('density', 'pressure', 'specific_internal_energy'))
    f = jwl_f(rho, P['gl'], P['A'], P['B'], P['R1'], P['R2'], P['r0'])
    o.close('JWL: e=(p-f(rho))/((g-1)rho)', e * (P['gl'] - 1) * rho, p - f, 2e-5, scale=np.abs(p) + np.abs(f), regime=s.soln_type)
    o.nontrivial = True
    return o


# ------------------------------------------------------------------ EHEP
REGIONS = ['I', 'II', 'III', 'IV', 'V', '0H', '0V', '00']


@st.composite
def ehep_case(draw):
    p = draw(cat.ehep_params())
    pts = draw(st.lists(st.tuples(st.sampled_from(REGIONS), st.lists(uni(0.05, 1.0), min_size=4, max_size=4)),
                        min_size=1, max_size=6))
    return dict(solver=cat.EHEP, params=p, pts=pts)


def ehep_point(s, region, w):
    """convex combination of the region's polygon corners (public attribute corners)"""
    c = np.asarray(s.corners[region], float)
    w = np.asarray(w[:len(c)], float)
    w = w / w.sum()
    return float(w @ c[:, 0]), float(w @ c[:, 1])


def check_ehep(case):
    o = Out()
    s = cat.make_solver(case)
    for region, w in case['pts']:
        x, t = ehep_point(s, region, w)
        if t <= 0:
            continue
        sol = cat.quiet(s, np.array([x]), t)
        o.label('want-' + region, 'got-' + str(sol['region'][0]))
        rho, p, e = gamma_law(o, sol, 3.0, c_name='sound_speed', regime=str(sol['region'][0]))
        if p[0] > 0:
            o.nontrivial = True
    # one request with many points in ascending order through products, unreacted explosive and void (the usual way the solver is called)
    P = case['params']
    w0 = case['pts'][0][1]
    for t_ in (w0[0] * P['xtilde'] / P['D'], (1.0 + 3.0 * w0[1]) * P['xtilde'] / P['D']):
        xs = np.linspace(0.0, min(P['xmax'], 3.0 * P['xtilde'] + P['D'] * t_), 41)
        sol = cat.quiet(s, xs, t_)
        gamma_law(o, sol, 3.0, c_name='sound_speed', regime='sweep')
        quiet = np.isin(np.asarray(sol['region']).astype(str), ['0H'])
        o.close('unreacted explosive in a sweep: p = 0, c = 0, u = 0', np.concatenate([np.asarray(sol[k], float)[quiet] for k in ('pressure', 'sound_speed', 'velocity')]), 0.0, 0.0, atol=0.0,
                regime='sweep')
    return o


# ------------------------------------------------------------------ Mader
@st.composite
def mader_case(draw):
    p = draw(cat.mader_params())
    t = 6.25e-6 * draw(logu(0.2, 5.0))
    n = draw(st.integers(150, 400))
    lo = draw(uni(0.0, 0.3))
    return dict(solver=cat.MADER, params=p, t=t, n=n, lo=lo)


def check_mader(case):
    o = Out()
    P = case['params']
    L = P['d_cj'] * case['t']
    x = np.linspace(case['lo'] * L, L, case['n'])
    sol = cat.run(case, x=x)
    dx = (x[-1] - x[0]) / len(x)
    # the single cell that straddles the tail of the Taylor wave is C17's business
    g = P['gamma']
    u_cj, c_cj = P['d_cj'] / (g + 1), g * P['d_cj'] / (g + 1)
    um = (g - 1) * (u_cj - 2 * c_cj / (g - 1)) / (g + 1)
    xp = 0.5 * (g + 1) * case['t'] * (P['u_piston'] - um)
    xdet = np.asarray(sol['xdet'], float)
    keep = np.abs(xdet - xp) > 1.2 * dx
    rho, p, c = (np.asarray(sol[k], float)[keep] for k in ('density', 'pressure', 'sound_speed'))
    o.label('fan%d' % int(np.sum(xdet[keep] > xp) > 0), 'const%d' % int(np.sum(xdet[keep] < xp) > 0))
    # cell averages of p, rho vs centre value of c: agreement to O((dx/L)^2)
    o.close('c^2*rho=gamma*p', c * c * rho, g * p, 50 * (dx / (P['d_cj'] * case['t'] * 0.5)) ** 2 + 1e-9)
    o.nontrivial = _defaults_differ(case)
    return o


# ------------------------------------------------------------------ SDRZ
@st.composite
def sdrz_case(draw):
    p = draw(cat.sdrz_params())
    t = draw(uni(0.2, 1.0))
    fr = draw(st.lists(uni(0.0, 1.2), min_size=2, max_size=8))
    return dict(solver=cat.SDRZ, params=p, t=t, fr=fr)


def check_sdrz(case):
    o = Out()
    P = case['params']
    front = P['D'] * case['t']
    x = np.array([front * (1 - 0.5 * f) for f in case['fr']])
    sol = cat.run(case, x=x)
    rho, p, c = (np.asarray(sol[k], float) for k in ('density', 'pressure', 'sound_speed'))
    o.label('behind' if np.any(x < front) else 'ahead-only')
    # 201-point table, fields interpolated separately: product identity to table resolution
    o.close('c^2*rho=gamma*p', c * c * rho, P['gamma'] * p, 2e-4, atol=1e-12)
    o.nontrivial = bool(np.any(p > 0)) and _defaults_differ(case)
    return o


# ------------------------------------------------------------------ EP piston
@st.composite
def piston_case(draw):
    p = draw(cat.piston_params())
    t = draw(logu(0.05, 5.0))
    fr = draw(st.lists(uni(0.0, 1.0), min_size=3, max_size=8))
    return dict(solver=cat.PISTON, params=p, t=t, fr=fr)


def mie_gruneisen(rho0, gamma, c0, s0, rho, e):
    eta = 1.0 - rho0 / rho
    Ph = rho0 * c0 ** 2 * eta / (1 - s0 * eta) ** 2
    Eh = eta * Ph / (2 * rho0)
    return Ph + gamma * rho * (e - Eh)


def check_piston(case):
    o = Out()
    P = case['params']
    s = cat.make_solver(case)
    if not (s.wv_pl < s.wv_el):
        # overdriven piston: the two-wave structure the solver assumes does not exist
        o.label('overdriven-skip')
        return o
    xmax = s.wv_el * case['t'] * 1.25
    # (nodes exactly on the two wave fronts as well: whichever side the solver assigns them to, the record must be one thermodynamic state)
    x = np.array(sorted([xmax * f for f in case['fr']] + [xmax, s.wv_pl * case['t'], s.wv_el * case['t']]))
    sol = cat.quiet(s, x, case['t'])
    rho, p, e = (np.asarray(sol[k], float) for k in ('density', 'pressure', 'specific_internal_energy'))
    o.label(P['model'], 'plastic' if np.any(x < s.wv_pl * case['t']) else '', 'elastic' if np.any((x > s.wv_pl * case['t']) & (x < s.wv_el * case['t'])) else '')
    K = P['rho0'] * P['c0'] ** 2
    o.close('p=MieGruneisen(rho,e)', p, mie_gruneisen(P['rho0'], P['gamma'], P['c0'], P['s0'], rho, e), 1e-8, atol=1e-10 * K)
    o.nontrivial = bool(np.any(p > 0))
    return o


# ------------------------------------------------------------------ black-box Noh
def check_bbnoh(case):
    o = Out()
    s = cat.make_solver(case)
    eos = s.eos
    sol = cat.run(case, solver=s)
    x = np.asarray(case['x'])
    rho, p, e = (np.asarray(sol[k], float) for k in ('density', 'pressure', 'specific_internal_energy'))
    shock = s.shock_speed * case['t']
    o.label(case['eos']['cls'], 'sym%d' % case['symmetry'])
    for i in range(len(x)):
        side = 'post-shock' if x[i] < shock else 'pre-shock'
        scale = max(abs(p[i]), abs(s.shocked_pressure))
        o.close('eos.P(rho,e)=p', eos.P(rho[i], e[i]), p[i], 1e-8, scale=scale, regime=side)
        o.close('eos.e(rho,p)=e', eos.e(rho[i], p[i]), e[i], 1e-8, scale=max(abs(e[i]), abs(s.shocked_energy)), regime=side)
    o.nontrivial = bool(np.any(x < shock)) and case['eos']['cls'] != 'ideal_gas_eos' or abs(case['gamma'] - 5 / 3) > 1e-9
    return o


# ------------------------------------------------------------------ RMTV
@st.composite
def rmtv_case(draw):
    p = draw(cat.rmtv_params())
    fr = draw(st.lists(uni(0.02, 1.15), min_size=2, max_size=5))
    return dict(solver=cat.RMTV, params=p, fr=fr)


def check_rmtv(case):
    o = Out()
    P = case['params']
    rf = P.get('rf', 0.9)
    x = np.array([rf * f for f in case['fr']])
    sol = cat.run(case, x=x, t=0.0)
    c = cat.cls_of(case['solver'])
    gam = P.get('gamma', c.gamma)
    G = P.get('bigamma', c.bigamma)
    rho, T, e, p = (np.asarray(sol[k], float) for k in ('density', 'temperature', 'energy', 'pressure'))
    o.label('inside' if np.any(x < rf) else 'outside-only')
    o.close('p=(gamma-1)*rho*e', p, (gam - 1) * rho * e, 1e-10)
    # unit factors documented in the solver: jerk=1e16 erg, keV=1e3 eV
    o.close('e=Gamma*T/(gamma-1) [jerk/keV units]', e * 1e-16 * (gam - 1), G * T * 1e-3, 1e-10)
    o.close('p=Gamma*rho*T [jerk/keV units]', p * 1e-16, G * rho * T * 1e-3, 1e-10)
    o.nontrivial = bool(np.any(p > 0)) and bool(P)
    return o


# ------------------------------------------------------------------ radiative shocks
A_RAD_EV = 137.20172


@st.composite
def radshock_case(draw, kind):
    p = draw(cat.radshock_params(kind))
    t = draw(st.one_of(st.just(0.0), uni(0.0, 1e-9)))
    idx = draw(st.lists(uni(0.0, 1.0), min_size=3, max_size=8))
    return dict(solver=cat.RAD + kind + '_Solver', params=p, t=t, idx=idx, kind=kind)


def check_radshock(case):
    o = Out()
    P = case['params']
    s = cat.make_radshock(case, o)
    if s is None:
        return o
    gam = P.get('gamma', 5.0 / 3.0)
    xs = np.asarray(s.x, float)
    # evaluate exactly at profile nodes (fields are interpolated separately; products are exact only there)
    nodes = np.unique((np.asarray(case['idx']) * (len(xs) - 1)).astype(int))
    sol0 = cat.quiet(s, -xs[nodes], 0.0)
    rho, p, e, c = (np.asarray(sol0[k], float) for k in ('density', 'pressure', 'specific_internal_energy', 'sound_speed'))
    T = np.asarray(sol0['temperature' if case['kind'] == 'ED' else 'temperature_mat'], float)
    o.label(case['kind'], 'M0=%g' % P['M0'])
    o.close('p=(gamma-1)*rho*e', p, (gam - 1) * rho * e, 1e-9)
    o.close('c^2*rho=gamma*p', c * c * rho, gam * p, 1e-6)
    Cv = P.get('Cv', 1.4472799784454e12)
    o.close('e=Cv*T', e, Cv * T, 1e-6)
    if case['kind'] == 'ED':
        o.close('rade=a_r*T^4 (equilibrium)', np.asarray(sol0['rade'], float), s.ar * T ** 4, 1e-9)
    elif case['kind'] in ('nED', 'Sn'):
        Tr = np.asarray(sol0['temperature_rad'], float)
        ar = float(s.RADE[0] / s.Tr[0] ** 4)
        o.true('a_r equals the radiation constant in eV units', abs(ar / A_RAD_EV - 1) < 1e-3, ar=ar)
        o.close('rade=a_r*Tr^4', np.asarray(sol0['rade'], float), A_RAD_EV * Tr ** 4, 2e-4)
    o.nontrivial = any(k in P for k in ('gamma', 'Cv', 'Tref', 'rho0')) or P['M0'] != 1.2
    return o


# ------------------------------------------------------------------ Guderley
@st.composite
def guderley_case(draw):
    p = draw(cat.guderley_params())
    t = draw(st.sampled_from([0.3, 0.6, 0.9, 1.2]))
    x = draw(st.lists(uni(0.1, 2.0), min_size=3, max_size=6))
    return dict(solver=cat.GUDERLEY, params=p, t=t, x=x)


def check_guderley(case):
    o = Out()
    sol = cat.run(case)
    P = case['params']
    o.label('geom%d' % P['geometry'], 'gamma%g' % P['gamma'], 'pre-collapse' if case['t'] < 0.750024322 else 'post-collapse')
    gamma_law(o, sol, P['gamma'], tol=1e-9, c_name='sound_speed')
    o.nontrivial = P['gamma'] != 1.4 or P['rho0'] != 1.0
    return o


OBLIGATIONS = [
    Obligation('cog-eos', cogcat.cog_case(), check_cog, quick=1500, thorough=60000),
    Obligation('noh-eos', cat.noh_case(), check_noh, quick=500, thorough=20000),
    Obligation('noh2-eos', cat.noh2_case(), check_noh2, quick=400, thorough=20000),
    Obligation('sedov-eos', sedov_case(), check_sedov, quick=32, thorough=800, min_per_shard=2),
    Obligation('riemann-ig-eos', cat.riemann_case(n_min=4, n_max=12), check_riemann_ig, quick=400, thorough=20000),
    Obligation('riemann-gen-eos', riemann_gen_case(), check_riemann_gen, quick=32, thorough=600, min_per_shard=2, expected_exc=(ValueError,)),
    Obligation('riemann-jwl-eos', riemann_jwl_case(), check_riemann_jwl, quick=16, thorough=300, min_per_shard=1),
    Obligation('ehep-eos', ehep_case(), check_ehep, quick=300, thorough=10000),
    Obligation('mader-eos', mader_case(), check_mader, quick=200, thorough=5000),
    Obligation('sdrz-eos', sdrz_case(), check_sdrz, quick=200, thorough=5000),
    Obligation('piston-eos', piston_case(), check_piston, quick=300, thorough=10000),
    Obligation('bbnoh-eos', cat.bbnoh_case(), check_bbnoh, quick=300, thorough=10000),
    Obligation('rmtv-eos', rmtv_case(), check_rmtv, quick=48, thorough=1500, min_per_shard=3),
    Obligation('radshock-ED-eos', radshock_case('ED'), check_radshock, quick=16, thorough=200, min_per_shard=1),
    Obligation('radshock-nED-eos', radshock_case('nED'), check_radshock, quick=16, thorough=300, min_per_shard=1),
    Obligation('radshock-ie-eos', radshock_case('ie'), check_radshock, quick=16, thorough=300, min_per_shard=1),
    Obligation('guderley-eos', guderley_case(), check_guderley, quick=16, thorough=64, min_per_shard=1),
]
for _o in OBLIGATIONS:
    if _o.name in ('sedov-eos', 'riemann-gen-eos', 'riemann-jwl-eos', 'radshock-ED-eos', 'guderley-eos', 'rmtv-eos'):
        _o.cost = 50.0
