"""C14 - heat-conduction solutions satisfy the heat equation, boundary conditions, initial data and limits."""
import math
import numpy as np
from hypothesis import strategies as st, assume

from ..core import Obligation, Out
from .. import cat
from ..strat import uni, logu, pos

META = dict(
    technique='Hypothesis-generated diffusivities / lengths / boundary data / initial end temperatures / truncation orders; finite-difference heat equation, one-sided '
              'boundary operators, t -> 0+ and t -> infinity limits against the declared initial profile and an independently solved steady state',
    rule='cases = (solver: Rod1D BC1-BC4 and Robin, the three planar sandwiches, Rectangle, Hutchens 1/2, CylindricalSandwich; kappa, L or radii, boundary values and fluxes, '
         'TL != TR, Nsum, positions, times chosen from the truncation bound exp(-kappa k_N^2 t) < 1e-9); oracle = interior PDE by 4th-order stencils, declared boundary '
         'operator by one-sided 4th-order differences, interior values at t -> 0+ (distance > 8 sqrt(kappa t) from the ends) equal the declared initial profile, values at '
         't -> infinity equal the steady solution solved independently from the declared boundary conditions, value at r = 0 equals the Richardson limit of nearby values; '
         'non-trivial = L != 1 or kappa != 1 or inhomogeneous data; distinct = case hash',
    assumptions=['Rectangle / Hutchens2 / CylindricalSandwich unpack points[0], points[1]: they are called with a (2, N) array (recorded under C05)',
                 'series solutions are evaluated only where the first neglected mode is below 1e-9'])

C1 = np.array([1, -8, 0, 8, -1]) / 12.0
C2 = np.array([-1, 16, -30, 16, -1]) / 12.0
J = np.array([-2, -1, 0, 1, 2])
ONE = np.array([-25, 48, -36, 16, -3]) / 12.0        # one-sided first derivative, f'(0) ~ sum ONE[j] f(j h)/h


def T_of(s, x, t):
    return np.asarray(cat.quiet(s, np.asarray(x, float), t)['temperature'], float)


# ------------------------------------------------------------------ 1-D rod family
@st.composite
def rod_case(draw):
    kind = draw(st.sampled_from(['rod', 'rod', 'PlanarSandwich', 'PlanarSandwichHot', 'PlanarSandwichHalf']))
    if kind == 'rod':
        p, bc = draw(cat.rod_params(nsum=draw(st.sampled_from([200, 400]))))
        solver = cat.ROD
    else:
        L = draw(st.one_of(st.just(2.0), logu(0.3, 5.0)))
        kappa = draw(st.one_of(st.just(1.0), logu(0.1, 10.0)))
        base = dict(L=L, kappa=kappa, Nsum=400, TL=draw(uni(-3.0, 5.0)), TR=draw(uni(-3.0, 5.0)))
        c1, c2 = draw(uni(-2.0, 2.0)), draw(uni(-2.0, 2.0))
        if kind == 'PlanarSandwich':
            p, bc = dict(base, TB=c1, TT=c2), 1
        elif kind == 'PlanarSandwichHot':
            p, bc = dict(base, F=c1), 2
        else:
            p, bc = dict(base, TB=c1, FT=c2), 3
        solver = cat.HEAT + {'PlanarSandwich': 'planar_sandwich.', 'PlanarSandwichHot': 'planar_sandwich_hot.', 'PlanarSandwichHalf': 'planar_sandwich_half.'}[kind] + kind
    return dict(solver=solver, params=p, bc=bc, kind=kind, fx=draw(st.lists(uni(0.05, 0.95), min_size=2, max_size=5)), ft=draw(logu(1.0, 3e3)))


def rod_bc_data(case):
    """(a1, b1, c1, a2, b2, c2) of  a T + b dT/dx = c  at x=0 and x=L"""
    p, k = case['params'], case['kind']
    if k == 'rod':
        return p['alpha1'], p['beta1'], p['gamma1'], p['alpha2'], p['beta2'], p['gamma2']
    if k == 'PlanarSandwich':
        return 1.0, 0.0, p['TB'], 1.0, 0.0, p['TT']
    if k == 'PlanarSandwichHot':
        return 0.0, 1.0, p['F'], 0.0, 1.0, p['F']
    return 1.0, 0.0, p['TB'], 0.0, 1.0, p['FT']


def steady_rod(a1, b1, c1, a2, b2, c2, L, mean=None):
    """linear steady state A + B x from the two boundary conditions (2x2 system); pure Neumann: slope from the flux, level from the mean"""
    M = np.array([[a1, b1], [a2, a2 * L + b2]], float)
    if abs(np.linalg.det(M)) < 1e-12:
        B = c1 / b1
        return mean - B * L / 2, B
    A, B = np.linalg.solve(M, np.array([c1, c2], float))
    return A, B


def check_rod(case):
    o = Out()
    P = case['params']
    s = cat.make_solver(case)
    L, kappa, N = P['L'], P['kappa'], P['Nsum']
    bc = case['bc']
    a1, b1, c1, a2, b2, c2 = rod_bc_data(case)
    kN = (N * math.pi / L) if bc in (1, 2) else ((2 * N + 1) * math.pi / (2 * L))
    tmin = -math.log(1e-9) / (kappa * kN * kN)
    t = tmin * case['ft']
    scale = abs(P['TL']) + abs(P['TR']) + abs(c1 / (a1 if a1 else b1)) * (1 if a1 else L) + abs(c2 / (a2 if a2 else b2)) * (1 if a2 else L) + 1e-6
    o.label(case['kind'], 'BC%d' % bc)
    # interior PDE
    x = np.asarray(case['fx']) * L
    # spatial step resolved for the highest retained mode (k_N h = 0.3): a coarser stencil mis-differentiates the high modes
    hx = min(0.3 / kN, 0.3 * min(x.min(), L - x.max()))
    ht = min(0.02 * t, 0.05 * L * L / (kappa * math.pi ** 2))      # resolved for the slowest mode as well
    pts = (x[:, None] + J[None, :] * hx).ravel()
    Tx = T_of(s, pts, t).reshape(len(x), 5)
    Tt = np.array([T_of(s, x, t + m * ht) for m in J]).T
    txx = Tx @ C2 / hx ** 2
    tt = Tt @ C1 / ht
    sc = np.abs(tt) + kappa * np.abs(txx) + scale * kappa / L ** 2
    o.close('heat equation T_t = kappa T_xx', tt, kappa * txx, 1e-5, scale=sc, regime='BC%d' % bc)
    # boundary operators (one-sided differences)
    h = 0.2 / kN
    T0 = T_of(s, h * np.arange(5), t)
    TLv = T_of(s, L - h * np.arange(5), t)
    d0 = T0 @ ONE / h
    dL = -(TLv @ ONE) / h
    o.close('left boundary condition alpha1 T + beta1 T_x = gamma1', a1 * T0[0] + b1 * d0, c1, 0.0, atol=2e-6 * (abs(a1) * scale + abs(b1) * scale / L), regime='BC%d' % bc)
    o.close('right boundary condition alpha2 T + beta2 T_x = gamma2', a2 * TLv[0] + b2 * dL, c2, 0.0, atol=2e-6 * (abs(a2) * scale + abs(b2) * scale / L), regime='BC%d' % bc)
    # initial profile TL + (TR - TL) x / L for t -> 0+ in the interior
    t0 = tmin
    xin = np.linspace(0, L, 41)[1:-1]
    xin = xin[(xin > 8 * math.sqrt(kappa * t0)) & (L - xin > 8 * math.sqrt(kappa * t0))]
    if xin.size:
        o.close('t -> 0+: declared initial profile TL + (TR-TL) x/L in the interior', T_of(s, xin, t0), P['TL'] + (P['TR'] - P['TL']) * xin / L, 0.0,
                atol=3e-5 * scale, regime='BC%d' % bc)
    # t -> infinity: steady state from the declared boundary conditions
    tinf = 60.0 * L * L / kappa
    A, B = steady_rod(a1, b1, c1, a2, b2, c2, L, mean=0.5 * (P['TL'] + P['TR']))
    xs = np.linspace(0, L, 9)
    o.close('t -> infinity: steady solution of the declared boundary conditions', T_of(s, xs, tinf), A + B * xs, 0.0, atol=1e-8 * scale + 1e-9, regime='BC%d' % bc)
    o.nontrivial = L != 1.0 or kappa != 1.0 or c1 != 0 or c2 != 0
    return o


@st.composite
def robin_case(draw):
    L = draw(st.one_of(st.just(1.0), logu(0.3, 5.0)))
    kappa = draw(st.one_of(st.just(1.0), logu(0.1, 10.0)))
    # well posed: alpha1 > 0, beta1 < 0 (outward normal at x=0 is -x), alpha2 > 0, beta2 > 0
    a1, a2 = draw(logu(0.3, 3.0)), draw(logu(0.3, 3.0))
    b1, b2 = -draw(logu(0.1, 3.0)) * L, draw(logu(0.1, 3.0)) * L
    p = dict(L=L, kappa=kappa, Nsum=60, TL=draw(uni(-3.0, 5.0)), TR=draw(uni(-3.0, 5.0)), alpha1=a1, beta1=b1, gamma1=draw(st.one_of(st.just(0.0), uni(-2.0, 2.0))),
             alpha2=a2, beta2=b2, gamma2=draw(st.one_of(st.just(0.0), uni(-2.0, 2.0))))
    return dict(solver=cat.ROD, params=p, fx=draw(st.lists(uni(0.1, 0.9), min_size=2, max_size=4)), ft=draw(logu(3.0, 300.0)))


def check_robin(case):
    o = Out()
    P = case['params']
    s = cat.make_solver(case)
    L, kappa, N = P['L'], P['kappa'], P['Nsum']
    a1, b1, c1, a2, b2, c2 = P['alpha1'], P['beta1'], P['gamma1'], P['alpha2'], P['beta2'], P['gamma2']
    kN = (N - 1) * math.pi / L
    tmin = -math.log(1e-9) / (kappa * kN * kN)
    t = tmin * case['ft']
    scale = abs(P['TL']) + abs(P['TR']) + abs(c1 / a1) + abs(c2 / a2) + 1e-6
    hom = 'homogeneous' if (c1 == 0 and c2 == 0) else 'inhomogeneous'
    o.label('Robin', hom, 'L=1' if L == 1.0 else 'L!=1')
    x = np.asarray(case['fx']) * L
    hx, ht = 0.3 / kN, min(0.02 * t, 0.05 * L * L / (kappa * math.pi ** 2))
    Tx = T_of(s, (x[:, None] + J[None, :] * hx).ravel(), t).reshape(len(x), 5)
    Tt = np.array([T_of(s, x, t + m * ht) for m in J]).T
    txx, tt = Tx @ C2 / hx ** 2, Tt @ C1 / ht
    o.close('heat equation T_t = kappa T_xx', tt, kappa * txx, 1e-5, scale=np.abs(tt) + kappa * np.abs(txx) + scale * kappa / L ** 2, regime='Robin')
    h = 0.2 / kN
    T0 = T_of(s, h * np.arange(5), t)
    TLv = T_of(s, L - h * np.arange(5), t)
    d0, dL = T0 @ ONE / h, -(TLv @ ONE) / h
    o.close('left boundary condition alpha1 T + beta1 T_x = gamma1', a1 * T0[0] + b1 * d0, c1, 0.0, atol=1e-5 * (abs(a1) * scale + abs(b1) * scale / L) + 1e-8, regime='Robin ' + hom)
    o.close('right boundary condition alpha2 T + beta2 T_x = gamma2', a2 * TLv[0] + b2 * dL, c2, 0.0, atol=1e-5 * (abs(a2) * scale + abs(b2) * scale / L) + 1e-8, regime='Robin ' + hom)
    xin = np.linspace(0, L, 21)[1:-1]
    xin = xin[(xin > 8 * math.sqrt(kappa * tmin)) & (L - xin > 8 * math.sqrt(kappa * tmin))]
    if xin.size:
        o.close('t -> 0+: declared initial profile TL + (TR-TL) x/L in the interior', T_of(s, xin, tmin), P['TL'] + (P['TR'] - P['TL']) * xin / L, 0.0,
                atol=2e-3 * scale, regime='Robin ' + hom)
    A, B = steady_rod(a1, b1, c1, a2, b2, c2, L)
    xs = np.linspace(0, L, 9)
    o.close('t -> infinity: steady solution of the declared boundary conditions', T_of(s, xs, 200.0 * L * L / kappa), A + B * xs, 0.0, atol=1e-7 * scale + 1e-9,
            regime='Robin ' + hom + (' L=1' if L == 1.0 else ' L!=1'))
    o.nontrivial = True
    return o


# ------------------------------------------------------------------ Hutchens 1 (sphere)
H1 = cat.HEAT + 'hutchens1.Hutchens1'


@st.composite
def h1_case(draw):
    p = dict(k=draw(pos(8.4695e10)), cp=draw(pos(5.2441e10)), rho=draw(pos(7.897)), b=draw(st.one_of(st.just(1.0), logu(0.2, 5.0))),
             Tb=draw(uni(-2.0, 8.0)), T0=draw(uni(-2.0, 8.0)), Nsum=draw(st.sampled_from([100, 300])))
    return dict(solver=H1, params=p, fx=draw(st.lists(uni(0.05, 0.9), min_size=2, max_size=4)), ft=draw(logu(1.0, 3e3)))


def check_h1(case):
    o = Out()
    P = case['params']
    s = cat.make_solver(case)
    al = P['k'] / (P['rho'] * P['cp'])
    b, N = P['b'], P['Nsum']
    kN = (N - 1) * math.pi / b
    tmin = -math.log(1e-9) / (al * kN * kN)
    t = tmin * case['ft']
    scale = abs(P['Tb']) + abs(P['T0']) + abs(P['Tb'] - P['T0']) + 1e-6
    r = np.asarray(case['fx']) * b
    hr, ht = min(0.3 / kN, 0.3 * r.min()), min(0.02 * t, 0.05 * b * b / (al * math.pi ** 2))
    Tr = T_of(s, (r[:, None] + J[None, :] * hr).ravel(), t).reshape(len(r), 5)
    Tt = np.array([T_of(s, r, t + m * ht) for m in J]).T
    lap = Tr @ C2 / hr ** 2 + 2 / r * (Tr @ C1 / hr)
    tt = Tt @ C1 / ht
    o.close('heat equation T_t = alpha (T_rr + 2 T_r / r)', tt, al * lap, 1e-5, scale=np.abs(tt) + al * np.abs(Tr @ C2 / hr ** 2) + scale * al / b ** 2)
    o.close('surface temperature T(b,t) = Tb', T_of(s, [b], t)[0], P['Tb'], 0.0, atol=1e-9 * scale)
    # centre: value at r = 0 is the limit of nearby values (Richardson on h, h/2, h/4) and the gradient vanishes
    h = 0.5 / kN
    Tn = T_of(s, [0.0, h / 4, h / 2, h], t)
    lim = (64 * Tn[1] - 20 * Tn[2] + Tn[3]) / 45.0          # even expansion T0 + c2 r^2 + c4 r^4
    o.close('value at r = 0 is the limit of nearby values', Tn[0], lim, 0.0, atol=1e-7 * scale, regime='r=0')
    o.close('zero gradient at the centre', (Tn[1] - Tn[0]) / (h / 4), 0.0, 0.0, atol=2e-2 * scale / b, regime='r=0')
    rin = np.linspace(0, b, 21)[1:-1]
    rin = rin[(b - rin) > 8 * math.sqrt(al * tmin)]
    o.close('t -> 0+: uniform initial temperature T0 in the interior', T_of(s, rin, tmin), P['T0'], 0.0, atol=3e-5 * scale)
    o.close('t -> infinity: uniform steady temperature Tb', T_of(s, np.linspace(0, b, 7), 60 * b * b / al), P['Tb'], 0.0, atol=1e-8 * scale + 1e-9)
    o.label('hutchens1')
    o.nontrivial = True
    return o


# ------------------------------------------------------------------ Rectangle, Hutchens 2, CylindricalSandwich
RECT = cat.HEAT + 'rectangle.Rectangle'
H2 = cat.HEAT + 'hutchens2.Hutchens2'
CYL = cat.HEAT + 'cylindrical_sandwich.CylindricalSandwich'


def T2(s, X, Y, t):
    return np.asarray(cat.quiet(s, np.array([np.asarray(X, float), np.asarray(Y, float)]), t)['temperature'], float)


@st.composite
def rect_case(draw):
    a_ = draw(st.one_of(st.just(2.0), logu(0.5, 4.0)))
    # aspect ratio bounded: sinh(k_n b) overflows (inf/inf) for (Nsum-1) pi b/a > ~709
    p = dict(kappa=draw(st.one_of(st.just(1.0), logu(0.2, 5.0))), a=a_, b=a_ * draw(st.one_of(st.just(1.0), logu(0.4, 2.5))),
             Ttop=draw(st.one_of(st.just(1.0), uni(-3.0, 3.0))), Nsum=draw(st.sampled_from([40, 60])))
    return dict(solver=RECT, params=p, fx=draw(uni(0.15, 0.85)), fy=draw(uni(0.15, 0.85)), ft=draw(logu(2.0, 200.0)))


def check_rect(case):
    o = Out()
    P = case['params']
    s = cat.make_solver(case)
    a, b, kappa, N = P['a'], P['b'], P['kappa'], P['Nsum']
    kN = (N - 1) * math.pi / max(a, b)
    tmin = -math.log(1e-9) / (kappa * kN * kN)
    t = tmin * case['ft']
    scale = abs(P['Ttop']) + 1e-6
    x, y = case['fx'] * a, case['fy'] * b
    h, ht = 0.3 / ((N - 1) * math.pi / min(a, b)), min(0.02 * t, 0.02 * min(a, b) ** 2 / (kappa * math.pi ** 2))
    Tx = T2(s, x + J * h, np.full(5, y), t)
    Ty = T2(s, np.full(5, x), y + J * h, t)
    Tt = np.array([T2(s, [x], [y], t + m * ht)[0] for m in J])
    lap = Tx @ C2 / h ** 2 + Ty @ C2 / h ** 2
    tt = Tt @ C1 / ht
    o.close('heat equation T_t = kappa (T_xx + T_yy)', tt, kappa * lap, 1e-4, scale=abs(tt) + kappa * (abs(Tx @ C2) + abs(Ty @ C2)) / h ** 2 + scale * kappa / (a * b))
    xs = np.linspace(0.1, 0.9, 5) * a
    o.close('bottom boundary T(x, 0) = 0', T2(s, xs, np.zeros(5), t), 0.0, 0.0, atol=1e-9 * scale)
    # top boundary: Fourier series of a constant converges slowly (1/N): compare away from the corners with the truncation error bound
    o.close('top boundary T(x, b) = Ttop', T2(s, xs, np.full(5, b), t), P['Ttop'], 0.0, atol=2.5 / N * scale)
    # sides: the problem statement declares zero heat flux
    hs = 0.2 / ((N - 1) * math.pi / a)
    ys = np.array([0.3, 0.6]) * b
    for yy in ys:
        Tl = T2(s, hs * np.arange(5), np.full(5, yy), t)
        Trr = T2(s, a - hs * np.arange(5), np.full(5, yy), t)
        o.close('declared zero heat flux on the sides x = 0 and x = a', [Tl @ ONE / hs, -(Trr @ ONE) / hs], 0.0, 0.0, atol=1e-3 * scale / a, regime='sides')
    o.label('rectangle')
    o.nontrivial = True
    return o


@st.composite
def h2_case(draw):
    p = dict(k=draw(pos(8.4695e10)), g0=draw(st.one_of(st.just(0.0), pos(1e13))), b=draw(st.one_of(st.just(1.0), logu(0.3, 3.0))), L=draw(st.one_of(st.just(2.0), logu(0.5, 4.0))),
             Tb=draw(uni(0.0, 8.0)), T0=draw(uni(0.0, 8.0)), TL=draw(uni(0.0, 8.0)), Nsum=draw(st.sampled_from([50, 100])))
    return dict(solver=H2, params=p, fr=draw(uni(0.1, 0.9)), fz=draw(uni(0.1, 0.9)))


def check_h2(case):
    o = Out()
    P = case['params']
    s = cat.make_solver(case)
    b, L = P['b'], P['L']
    scale = abs(P['Tb']) + abs(P['T0']) + abs(P['TL']) + P['g0'] * L * L / P['k'] + 1e-6
    zs = np.linspace(0.1, 0.9, 5) * L
    rs = np.linspace(0.1, 0.9, 5) * b
    o.close('T(r = b, z) = Tb', T2(s, np.full(5, b), zs, 0.0), P['Tb'], 0.0, atol=2e-2 * scale, regime='hutchens2')
    o.close('T(r, z = 0) = T0', T2(s, rs, np.zeros(5), 0.0), P['T0'], 0.0, atol=1e-6 * scale, regime='hutchens2')
    o.close('T(r, z = L) = TL', T2(s, rs, np.full(5, L), 0.0), P['TL'], 0.0, atol=1e-6 * scale, regime='hutchens2')
    r, z = case['fr'] * b, case['fz'] * L
    h = 0.02 * min(b, L)
    Tr = T2(s, r + J * h, np.full(5, z), 0.0)
    Tz = T2(s, np.full(5, r), z + J * h, 0.0)
    lap = Tr @ C2 / h ** 2 + (Tr @ C1 / h) / r + Tz @ C2 / h ** 2
    o.close('steady equation: Laplacian T + g0/k = 0 (cylindrical)', lap + P['g0'] / P['k'], 0.0, 0.0, atol=1e-3 * (scale / min(b, L) ** 2), regime='hutchens2')
    o.label('hutchens2')
    o.nontrivial = True
    return o


@st.composite
def cyl_case(draw):
    a = draw(st.one_of(st.just(0.25), uni(0.2, 0.5)))
    p = dict(kappa=draw(st.one_of(st.just(1.0), logu(0.3, 3.0))), a=a, b=a + draw(uni(0.4, 0.8)), T1=draw(st.one_of(st.just(1.0), uni(0.5, 3.0))),
             T0=draw(st.one_of(st.just(0.0), uni(-1.0, 1.0))), Nsum=4, Msum=6)
    return dict(solver=CYL, params=p, fr=draw(uni(0.2, 0.8)), fth=draw(uni(0.2, 0.8)), t=draw(logu(0.01, 0.3)))


def check_cyl(case):
    o = Out()
    P = case['params']
    s = cat.make_solver(case)
    a, b, kappa = P['a'], P['b'], P['kappa']
    t = case['t'] * (b - a) ** 2 / kappa
    scale = abs(P['T0']) + abs(P['T1']) + 1e-6
    rs = a + (b - a) * np.linspace(0.1, 0.9, 5)
    o.close('T(r, theta = 0) = T0', T2(s, rs, np.zeros(5), t), P['T0'], 0.0, atol=1e-9 * scale, regime='cylindrical-sandwich')
    o.close('T(r, theta = pi/2) = T1', T2(s, rs, np.full(5, math.pi / 2), t), P['T1'], 0.0, atol=1e-9 * scale, regime='cylindrical-sandwich')
    r, th = a + (b - a) * case['fr'], case['fth'] * math.pi / 2
    h, hth, ht = 0.02 * (b - a), 0.02, 0.02 * t
    Tr = T2(s, r + J * h, np.full(5, th), t)
    Tth = T2(s, np.full(5, r), th + J * hth, t)
    Tt = np.array([T2(s, [r], [th], t + m * ht)[0] for m in J])
    lap = Tr @ C2 / h ** 2 + (Tr @ C1 / h) / r + (Tth @ C2 / hth ** 2) / r ** 2
    tt = Tt @ C1 / ht
    o.close('heat equation T_t = kappa Laplacian T (polar)', tt, kappa * lap, 2e-3, scale=abs(tt) + kappa * abs(lap) + scale * kappa / (b - a) ** 2 * 1e-2, regime='cylindrical-sandwich')
    o.label('cylindrical-sandwich')
    o.nontrivial = True
    return o


@st.composite
def cylflux_case(draw):
    c = draw(cyl_case())
    # another annulus, solved first in the same process with the same truncation (a second user of the class must not change this one's modes)
    a0 = draw(uni(0.2, 0.5))
    c['prior'] = dict(a=a0, b=a0 + draw(uni(0.4, 0.8)))
    c['prior_first'] = draw(st.booleans())
    return c


def check_cylflux(case):
    """The declared radial conditions d_r T = 0 at r = a and r = b (they hold mode by mode, independently of the time dependence and amplitudes that
    KF-C14-cylindrical-sandwich is about), one-sided 4th-order differences through the public call."""
    o = Out()
    P = case['params']
    if case['prior_first']:
        try:
            s0 = cat.make_solver(dict(solver=CYL, params=dict(P, **case['prior'])))
            T2(s0, [0.5 * (case['prior']['a'] + case['prior']['b'])], [0.7], 0.01)
        except RuntimeError:
            pass                                   # (Newton search of the other annulus failed: part of the known finding, irrelevant here)
        o.label('another annulus solved first')
    try:
        s = cat.make_solver(case)
        a, b, kappa = P['a'], P['b'], P['kappa']
        t = case['t'] * (b - a) ** 2 / kappa
        th = case['fth'] * math.pi / 2
        scale = (abs(P['T0']) + abs(P['T1']) + 1e-6) / (b - a)
        for h in (0.02 * (b - a), 0.01 * (b - a)):
            Ta = T2(s, a + h * np.arange(5), np.full(5, th), t)
            Tb = T2(s, b - h * np.arange(5), np.full(5, th), t)
            da = (-25 * Ta[0] + 48 * Ta[1] - 36 * Ta[2] + 16 * Ta[3] - 3 * Ta[4]) / (12 * h)
            db = -(-25 * Tb[0] + 48 * Tb[1] - 36 * Tb[2] + 16 * Tb[3] - 3 * Tb[4]) / (12 * h)
            if h > 0.015 * (b - a):
                d1 = (da, db)
        # truncation error of the stencil ~ h^4 T^(5) / 5: the retained radial modes oscillate with alpha_nm <= ~ Msum pi / (b - a); both step sizes must fail
        wa, wb = min(abs(da), abs(d1[0])), min(abs(db), abs(d1[1]))
        o.close('zero radial heat flux at r = a', wa, 0.0, 0.0, atol=2e-3 * scale, d_h=float(d1[0]), d_h2=float(da))
        o.close('zero radial heat flux at r = b', wb, 0.0, 0.0, atol=2e-3 * scale, d_h=float(d1[1]), d_h2=float(db))
    except RuntimeError:
        o.label('newton-search-failed (known finding)')
    o.nontrivial = True
    return o


OBLIGATIONS = [
    Obligation('rod-and-sandwiches', rod_case(), check_rod, quick=300, thorough=10000),
    Obligation('rod-robin', robin_case(), check_robin, quick=80, thorough=2000, min_per_shard=4),
    Obligation('hutchens1', h1_case(), check_h1, quick=200, thorough=6000),
    Obligation('rectangle', rect_case(), check_rect, quick=32, thorough=500, min_per_shard=2),
    Obligation('hutchens2', h2_case(), check_h2, quick=40, thorough=1000, min_per_shard=2),
    Obligation('cylindrical-sandwich', cyl_case(), check_cyl, quick=16, thorough=200, min_per_shard=1),
    Obligation('cylsandwich-radial-flux', cylflux_case(), check_cylflux, quick=32, thorough=400, min_per_shard=2),
]
