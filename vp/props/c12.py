"""C12 - radiative shocks are steady travelling waves conserving total fluxes."""
import math
import numpy as np
from hypothesis import strategies as st, assume

from ..core import Obligation, Out
from .. import cat
from ..strat import uni, logu

META = dict(
    technique='Hypothesis-generated (M0, gamma, Cv, Tref, rho0, closure) per solver; metamorphic translation relation on the public call and flux constancy on the public profile attributes',
    rule='cases = (solver ED / nED with closure variants / ie / Sn in thorough, Mach number, non-default gamma/Cv/Tref/rho0, time shift, points as fractions of the profile extent); '
         'oracle O1: S(x + M0 c_s dt, t + dt) = S(x, t) for every field with c_s = sqrt(gamma (gamma-1) Cv Tref) recomputed from the user parameters; '
         'oracle O2: rho u, rho u^2 + p + a_r Tr^4/3 and u (rho u^2/2 + gamma p/(gamma-1)) + c_s Fr constant along the profile attributes, far-field states in '
         'radiative equilibrium (Tr = Tm) with equal equilibrium total energy flux; parameter sets for which the constructor raises are counted as '
         '"no solution produced" (the property quantifies over Mach numbers for which a solution is produced) except the documented default set; '
         'non-trivial = non-default gamma/Cv/Tref (O1) or M0 != default (O2); distinct = case hash',
    assumptions=['S_n transport solver: only M0 < 2 (3 to 30 min per construction at M0 = 2, more than 10 min at M0 = 3) and only in the thorough tier; its interior momentum balance is not observable (variable Eddington factor not public)', 'the public attribute Fr is the lab-frame radiation flux divided by the upstream sound speed (it is scaled with C0 = c/c_s, not c): the energy balance uses c_s * Fr',
                 'a_r = 137.20172 erg cm^-3 eV^-4 as in radshock.py'])

AR = 137.20172
FIELDS = {'ED': ('temperature', 'density', 'velocity', 'pressure', 'specific_internal_energy', 'rade', 'sound_speed'),
          'nED': ('temperature_mat', 'temperature_rad', 'density', 'velocity', 'pressure', 'specific_internal_energy', 'rade', 'sound_speed'),
          'Sn': ('temperature_mat', 'temperature_rad', 'density', 'velocity', 'pressure', 'specific_internal_energy', 'rade', 'sound_speed'),
          'ie': ('temperature_ion', 'temperature_mat', 'temperature_elec', 'density', 'velocity', 'pressure', 'specific_internal_energy', 'sound_speed')}


@st.composite
def rad_case(draw, kind):
    p = draw(cat.radshock_params(kind))
    if kind == 'nED' and draw(st.integers(0, 2)) == 0:
        p['problem'] = draw(st.sampled_from(['LM_nED', 'FLD_LP', 'FLD_1', 'FLD_2']))
    if kind == 'ED' and p['M0'] > 2.0:
        p['M0'] = draw(st.sampled_from([1.05, 1.2, 1.4, 2.0]))       # construction time grows with M0 (5 M points at M0=5)
    dt = draw(st.one_of(logu(1e-12, 1e-8), st.sampled_from([1e-9, 1e-10])))
    t0 = draw(st.one_of(st.just(0.0), logu(1e-12, 1e-8)))
    fr = draw(st.lists(uni(-0.2, 1.2), min_size=4, max_size=10))
    return dict(solver=cat.RAD + kind + '_Solver', params=p, kind=kind, dt=dt, t0=t0, fr=fr)


def sane_profile(o, s, kind):
    """the spliced profile must be a finite, ordered table describing a compression (the public call interpolates in it)"""
    xs = np.asarray(s.x, float)
    rho = np.asarray(s.Density, float)
    if not (np.all(np.isfinite(xs)) and np.all(np.isfinite(rho))):
        o.fail('profile table is finite, ordered and compressive', kind, reason='non-finite positions or densities')
        return False
    d = np.diff(xs)
    ext = xs.max() - xs.min()
    ndec = int(np.sum(d < -1e-7 * ext))
    if ndec > 0 or int(np.sum(d < 0)) > 5:
        o.fail('profile table is finite, ordered and compressive', kind, reason='positions not sorted', n_decreasing_steps=int(np.sum(d < 0)),
               largest_backward_step_over_extent=float(-d.min() / ext))
        return False
    if not rho[-1] > rho[0] * (1 + 1e-6):
        o.fail('profile table is finite, ordered and compressive', kind, reason='downstream density does not exceed upstream density',
               ratio=float(rho[-1] / rho[0]))
        return False
    o.checks += 1
    return True


def check_translation(case):
    o = Out()
    P = case['params']
    kind = case['kind']
    s = cat.make_radshock(case, o)
    if s is None:
        return o
    c = cat.cls_of(case['solver'])
    gam, Cv, Tref = P.get('gamma', c.gamma), P.get('Cv', c.Cv), P.get('Tref', c.Tref)
    cs = math.sqrt(gam * (gam - 1) * Cv * Tref)
    xs = np.asarray(s.x, float)
    if not sane_profile(o, s, kind):
        return o            # numpy.interp on an unsorted / non-finite table is undefined: nothing further can be compared
    lo, hi = -xs[-1], -xs[0]
    t0, dt = case['t0'], case['dt']
    shift0 = P['M0'] * cs * t0
    x = lo + (hi - lo) * np.asarray(case['fr']) + shift0
    # stay one profile cell away from the embedded hydrodynamic shock (duplicate / nano-spaced nodes around x = 0)
    node_x = -xs[::-1] + shift0
    dmin = np.min(np.abs(x[:, None] - node_x[None, np.argsort(np.diff(node_x))[:3]]), axis=1) if len(node_x) > 3 else np.ones_like(x)
    x = x[np.abs(x - shift0) > 1e-6 * (hi - lo)]
    if x.size == 0:
        return o
    A = cat.quiet(s, x, t0)
    B = cat.quiet(s, x + P['M0'] * cs * dt, t0 + dt)
    o.label(kind, 'M0=%g' % P['M0'], P.get('problem', ''))
    for k in FIELDS[kind]:
        a, b = np.asarray(A[k], float), np.asarray(B[k], float)
        sc = np.max(np.abs(np.asarray(getattr(s, {'density': 'Density', 'velocity': 'Speed', 'pressure': 'Pressure'}.get(k, 'Tm')), float))) if k in ('density', 'velocity', 'pressure') else np.max(np.abs(a)) + 1e-300
        o.close('%s: profile displaced by M0 c_s(user gamma, Cv, Tref) dt' % k, b, a, 2e-6, scale=sc, regime=kind)
    # the profile at t0 is the profile at 0 displaced
    C = cat.quiet(s, x - shift0, 0.0)
    for k in ('density', 'pressure'):
        o.close('%s: nothing else depends on time' % k, np.asarray(A[k], float), np.asarray(C[k], float), 2e-6, scale=np.max(np.abs(np.asarray(A[k], float))), regime=kind)
    o.nontrivial = any(k in P for k in ('gamma', 'Cv', 'Tref'))
    return o


def check_fluxes(case):
    o = Out()
    P = case['params']
    kind = case['kind']
    s = cat.make_radshock(case, o)
    if s is None:
        return o
    c = cat.cls_of(case['solver'])
    gam, Cv, Tref = P.get('gamma', c.gamma), P.get('Cv', c.Cv), P.get('Tref', c.Tref)
    cs = math.sqrt(gam * (gam - 1) * Cv * Tref)
    rho, u, p = (np.asarray(getattr(s, k), float) for k in ('Density', 'Speed', 'Pressure'))
    Tm = np.asarray(s.Tm, float)
    o.label(kind, 'M0=%g' % P['M0'], P.get('problem', ''))
    if kind != 'ie' and not sane_profile(o, s, kind):
        return o
    o.true('profile attributes finite', bool(np.all(np.isfinite(rho)) and np.all(np.isfinite(u)) and np.all(np.isfinite(p)) and np.all(np.isfinite(Tm))))
    rho0 = P.get('rho0', c.rho0)
    o.close('upstream state: rho0, M0 c_s, Tref', [rho[0], u[0], Tm[0]], [rho0, P['M0'] * cs, Tref], 1e-6, regime=kind)
    mass = rho * u
    o.close('mass flux constant along the profile', mass, mass[0], 1e-9, regime=kind)
    if kind == 'ie':
        # two-temperature ion/electron shock: no radiation; momentum = rho u^2 + p
        mom = rho * u * u + p
        o.close('momentum flux constant along the profile', mom, mom[0], 1e-8, regime=kind)
        o.nontrivial = P['M0'] != 1.4
        return o
    Tr = np.asarray(getattr(s, 'Tr', s.Tm), float)
    Er = AR * Tr ** 4
    mom = rho * u * u + p + Er / 3.0
    fld = P.get('problem', '').startswith('FLD')
    if kind == 'Sn':
        # discrete-ordinates transport: the radiation pressure is f(x) E_r with the variable Eddington factor of the converged S_n iteration
        # (f_tol = 1e-4), not E_r / 3, and f is not a public attribute: like the flux-limited closures, only the far-field balance is observable
        # (thorough run: E_r / 3 leaves 9e-7 of the total momentum flux unbalanced inside the profile)
        o.label('Sn-interior-momentum-not-observable')
    elif fld:
        # flux-limited closures carry a variable Eddington factor (P_r != E_r/3) that is not a public attribute:
        # the radiation pressure inside the profile is not observable; the far-field (equilibrium) balance below still is
        o.label('FLD-interior-momentum-not-observable')
    else:
        o.close('total momentum flux (incl. radiation pressure) constant along the profile', mom, mom[0], 1e-8, regime=kind)
    Fr = np.asarray(s.Fr, float)
    etot = u * (0.5 * rho * u * u + gam * p / (gam - 1)) + cs * Fr
    tol = 1e-3 if fld else 1e-8
    body = slice(0, len(etot) - 1)
    # an embedded hydrodynamic shock shows as a last density increment far above the preceding ones (e.g. M0 = 1.2, gamma = 1.4: 9.4e-3 after 1.7e-5)
    embedded = bool(rho[-1] / rho[-2] > 1.01 or (rho[-1] - rho[-2] > 50.0 * abs(rho[-2] - rho[-3]) and rho[-1] / rho[-2] > 1 + 1e-4))
    o.close('total energy flux (incl. radiation flux) constant along the profile', etot[body], etot[0], tol, regime=kind)
    o.close('total energy flux at the downstream end node', etot[-1], etot[0], max(tol, 1e-6), regime=kind + ('-embedded-shock' if embedded else ''))
    # far-field equilibrium states related by the radiation-modified jump conditions
    if kind != 'ED':
        o.close('far field in radiative equilibrium: Tr = Tm', [Tr[0], Tr[-1]], [Tm[0], Tm[-1]], 1e-4, regime=kind)
    Eeq = AR * Tm ** 4
    e_eq = u * (0.5 * rho * u * u + gam * p / (gam - 1) + 4.0 / 3.0 * Eeq)
    o.close('far-field equilibrium states: equal total energy flux u (rho u^2/2 + gamma p/(gamma-1) + 4/3 a T^4)', e_eq[-1], e_eq[0], 1e-5, regime=kind)
    m_eq = rho * u * u + p + Eeq / 3
    o.close('far-field equilibrium states: equal total momentum flux', m_eq[-1], m_eq[0], 1e-5, regime=kind)
    o.nontrivial = P['M0'] != 1.2 or any(k in P for k in ('gamma', 'Cv', 'Tref', 'rho0'))
    return o


OBLIGATIONS = [
    Obligation('ED-translation', rad_case('ED'), check_translation, quick=8, thorough=100, min_per_shard=1),
    Obligation('nED-translation', rad_case('nED'), check_translation, quick=24, thorough=500, min_per_shard=1),
    Obligation('ie-translation', rad_case('ie'), check_translation, quick=16, thorough=300, min_per_shard=1),
    Obligation('ED-fluxes', rad_case('ED'), check_fluxes, quick=8, thorough=100, min_per_shard=1),
    Obligation('nED-fluxes', rad_case('nED'), check_fluxes, quick=24, thorough=500, min_per_shard=1),
    Obligation('ie-fluxes', rad_case('ie'), check_fluxes, quick=16, thorough=300, min_per_shard=1),
    # (one S_n construction takes 12 s to 40 s for most parameter sets but does not end within an hour for some (e.g. M0 = 1.4 with Cv doubled):
    #  the shard budget turns those into INCONCLUSIVE instead of stalling the run)
    Obligation('Sn-translation-and-fluxes', rad_case('Sn'), check_fluxes, quick=0, thorough=8, min_per_shard=1, budget_s={'quick': 240, 'thorough': 420}),
]
for _o in OBLIGATIONS:
    # (Sn started first: its shards are abandoned by the watchdog after 2 x 420 s + 120 s)
    _o.cost = 1000.0 if _o.name.startswith('Sn') else (50.0 if _o.name.startswith('ED') else 10.0)
