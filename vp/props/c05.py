"""C05 - every solver honours the uniform call/return contract of the ExactPack API."""
import csv, io, math, os, tempfile
import numpy as np
from hypothesis import strategies as st

from ..fuzz import fuzzed, CHEAP_MODULES
from ..core import Obligation, Out
from .. import cat, allsolvers
from ..strat import uni

META = dict(
    technique='Hypothesis-generated (solver class out of ALL public ExactSolver subclasses found by walking the package, N, container type, permutation); contract predicates incl. CSV round trip; coverage-guided supplement: the same strategy and oracle driven by atheris/libFuzzer through Hypothesis fuzz_one_input (obligations *-atheris)',
    rule='cases = (class drawn uniformly from the 120 public ExactSolver subclasses enumerated with pkgutil at run time - a class without a recipe is reported, not skipped -, '
         'N in 1..12 (>= 2 where documented), points as list / tuple / ndarray / list of tuples, a random permutation); oracle = result is an ExactSolution of exactly N records '
         'in input order whose leading field(s) are the positions passed, field names unique and positions named per the standard table, list/tuple/array inputs give identical '
         'results, the input array is bit-identical afterwards, dump() + csv.reader reproduces every value exactly; constructor: an unknown keyword and a missing parameter '
         'without default raise ValueError; non-trivial = container != ndarray or permuted order or N > 1; distinct = case hash',
    assumptions=['RateStick / ExplosiveArc need a structured grid: smallest admissible 3x3 grid, no permutation; Mader and Sedov are documented as batch (grid) dependent: the '
                 'permutation relation is not asserted for Mader, whose cell width is taken from the first and last point of the batch',
                 'Sn radiative shock (35 s per construction) only in the thorough tier'])

POSNAMES = {'position', 'position_x', 'position_y', 'position_z'}


def _classes(tier_all=False):
    paths = list(allsolvers.all_solver_classes())
    return paths


@st.composite
def contract_case(draw, include_slow=False):
    paths = _classes()
    if not include_slow:
        paths = [p for p in paths if allsolvers.SLOW.get(p, 0) < 10]
    # balance over problem packages first (74 of the 120 classes are Coggeshall variants), then over the classes of the package
    pk = sorted(set(p.split('.')[2] for p in paths))
    pkg = draw(st.sampled_from(pk))
    path = draw(st.sampled_from([p for p in paths if p.split('.')[2] == pkg]))
    u = draw(st.lists(uni(0.0, 0.999), min_size=16, max_size=16))
    return dict(solver=path, u=u, container=draw(st.sampled_from(['ndarray', 'list', 'tuple', 'list-of-tuples'])), perm_seed=draw(st.integers(0, 10 ** 6)))


def as_container(points, layout, kind):
    if layout == 'N':
        if kind == 'ndarray':
            return np.array(points, float)
        if kind == 'tuple':
            return tuple(points)
        return list(points)
    if layout == 'NxD':
        if kind == 'ndarray':
            return np.array(points, float)
        if kind == 'list-of-tuples':
            return [tuple(p) for p in points]
        if kind == 'tuple':
            return tuple(tuple(p) for p in points)
        return [list(p) for p in points]
    # 2xN
    if kind == 'ndarray':
        return np.array(points, float)
    if kind == 'tuple':
        return (tuple(points[0]), tuple(points[1]))
    return [list(points[0]), list(points[1])]


def same(a, b):
    a, b = np.asarray(a), np.asarray(b)
    if a.dtype.kind in 'fc' and b.dtype.kind in 'fc':
        return bool(a.shape == b.shape and np.all((a == b) | (np.isnan(a) & np.isnan(b))))
    return bool(a.shape == b.shape and np.all(a == b))


def check_contract(case):
    from exactpack.base import ExactSolution
    o = Out()
    path = case['solver']
    name = path.rsplit('.', 1)[1]
    o.label(path.split('.')[2])
    if path in allsolvers.UNCONSTRUCTIBLE:
        # the wrapper class exists but its fixed geometry is rejected by the base class: construction must fail loudly
        try:
            cat.quiet(cat.cls_of(path))
            o.fail('wrapper class with an inadmissible fixed geometry raises ValueError', name)
        except ValueError:
            o.checks += 1
        o.label('unconstructible-wrapper')
        return o
    rec = allsolvers.recipe(path, case['u'])
    if rec is None:
        o.fail('every public solver class has a call recipe in the catalogue', name)
        return o
    if path in allsolvers.UNUSABLE:
        try:
            cat.quiet(allsolvers.construct(path, rec['kwargs'], rec['special']), np.array(rec['points'], float), rec['t'])
            o.label('unusable-class-returned-something')
        except Exception:      # noqa  (loud rejection is what can be asked of a class without an admissible parameter set)
            o.checks += 1
        o.label('unusable-wrapper')
        return o
    s = allsolvers.construct(path, rec['kwargs'], rec['special'])
    layout = rec['layout']
    pts = rec['points']
    N = len(pts[0]) if layout == '2xN' else len(pts)
    t = rec['t']
    arr = np.array(pts, float)
    before = arr.copy()
    sol = cat.quiet(s, arr, t)
    reg = name
    o.true('returns an ExactSolution', isinstance(sol, ExactSolution), regime=reg, type=str(type(sol)))
    o.true('input array is not modified', same(arr, before) and arr.tobytes() == before.tobytes(), regime=reg)
    names = sol.dtype.names
    o.true('field names are unique non-empty strings', len(set(names)) == len(names) and all(isinstance(k, str) and k for k in names), regime=reg, names=list(names))
    o.true('exactly N records', len(sol) == N, regime=reg, got=len(sol), N=N, layout=layout)
    if len(sol) != N:
        return o
    # leading field(s) are the positions that were passed
    ncoord = 1 if layout == 'N' else (arr.shape[1] if layout == 'NxD' else 2)
    coords = [arr] if layout == 'N' else ([arr[:, j] for j in range(ncoord)] if layout == 'NxD' else [arr[0], arr[1]])
    lead_ok = all(j < len(names) and same(np.asarray(sol[names[j]], float), coords[j]) for j in range(ncoord))
    o.true('leading field(s) hold the positions passed, in input order', lead_ok, regime=reg, names=list(names[:ncoord]))
    # (observation only: the standard table names position / position_x.. ; Hutchens1 uses 'radius', the 2-D Riemann solver 'x_position')
    if not all(k == 'position' or k.startswith('position_') for k in names[:ncoord]):
        o.label('non-standard-position-name:' + ','.join(names[:ncoord]))
    # container equivalence
    kind = case['container']
    if not (layout == 'N' and kind == 'list-of-tuples'):
        sol2 = cat.quiet(allsolvers.construct(path, rec['kwargs'], rec['special']), as_container(pts, layout, kind), t)
        o.true('list / tuple / array inputs give identical results', sol2.dtype.names == names and len(sol2) == len(sol) and all(same(sol2[k], sol[k]) for k in names), regime=reg, container=kind)
        o.label('container-' + kind)
    # order follows the input order (permutation)
    if rec['special'] != 'structured' and N > 1 and not path.endswith('.Mader'):
        rng = np.random.RandomState(case['perm_seed'])
        perm = rng.permutation(N)
        parr = arr[perm] if layout != '2xN' else arr[:, perm]
        sol3 = cat.quiet(allsolvers.construct(path, rec['kwargs'], rec['special']), parr, t)
        ok = len(sol3) == N
        if ok:
            for k in names:
                a, b = np.asarray(sol3[k]), np.asarray(sol[k])[perm]
                if a.dtype.kind == 'f':
                    ok &= bool(np.allclose(a, b, rtol=1e-9 if not rec['batch_dependent'] else 1e-6, atol=1e-300, equal_nan=True))
                else:
                    ok &= same(a, b)
        o.true('records follow the order of the input points (permutation)', bool(ok), regime=reg)
        o.label('permuted')
    # CSV round trip
    fd, fn = tempfile.mkstemp(suffix='.csv', prefix='vp_c05_')
    os.close(fd)
    try:
        sol.dump(fn)
        with open(fn, newline='') as f:
            rows = list(csv.reader(f))
    finally:
        os.unlink(fn)
    ok = rows and tuple(rows[0]) == tuple(names) and len(rows) == N + 1
    if ok:
        for i in range(N):
            for j, k in enumerate(names):
                v = sol[k][i]
                sv = rows[i + 1][j]
                if np.asarray(v).dtype.kind == 'f':
                    fv = float(sv)
                    ok &= (fv == float(v)) or (math.isnan(fv) and math.isnan(float(v)))
                else:
                    ok &= (sv == str(v))
    o.true('dump() to CSV and reading back reproduces every value exactly', bool(ok), regime=reg)
    o.nontrivial = N > 1 or kind != 'ndarray'
    return o


@st.composite
def ctor_case(draw):
    paths = _classes()
    pkg = draw(st.sampled_from(sorted(set(p.split('.')[2] for p in paths))))
    path = draw(st.sampled_from([p for p in paths if p.split('.')[2] == pkg]))
    bad = draw(st.sampled_from(['not_a_parameter', 'gama', 'Geometry', 'rho_zero', 'verbosity']))
    # names that a base class documents but the class itself does not (a geometry wrapper does not take 'geometry'): unknown to this class
    inherited = _parent_only(path)
    if inherited and draw(st.booleans()):
        bad = draw(st.sampled_from(inherited))
    return dict(solver=path, bad=bad, u=[0.5] * 16)


def _parent_only(path):
    c = cat.cls_of(path)
    own = set(getattr(c, 'parameters', {}) or {})
    names = set()
    for b in c.__mro__[1:]:
        names |= set(b.__dict__.get('parameters', {}) or {})
    return sorted(names - own)


def check_ctor(case):
    o = Out()
    path = case['solver']
    name = path.rsplit('.', 1)[1]
    c = cat.cls_of(path)
    o.label(path.split('.')[2])
    if path in allsolvers.UNCONSTRUCTIBLE:
        return o
    rec = allsolvers.recipe(path, case['u'])
    if rec is None:
        o.fail('every public solver class has a call recipe in the catalogue', name)
        return o
    kw = dict(rec['kwargs'])
    kw[case['bad']] = 1.0
    if case['bad'] in _parent_only(path):
        o.label('base-class-only name')
        b = [b for b in c.__mro__[1:] if case['bad'] in (b.__dict__.get('parameters', {}) or {})][0]
        if hasattr(b, case['bad']):
            kw[case['bad']] = getattr(b, case['bad'])      # (a value the base class would accept: only the name is wrong)
    try:
        if '.nohblackboxeos.' in path:
            eos = cat.make_eos(dict(cls='ideal_gas_eos', args=dict(gamma=5.0 / 3.0)))
            cat.quiet(c, eos, **kw)
        else:
            cat.quiet(c, **kw)
        o.fail('unknown parameter name raises ValueError', name, outcome='accepted')
    except ValueError:
        o.checks += 1
    except Exception as e:  # noqa
        o.fail('unknown parameter name raises ValueError', name, outcome=type(e).__name__)
    # parameters without a class default must be demanded
    missing = [p for p in c.parameters if not hasattr(c, p)]
    if path.endswith('.Blake'):
        missing = []          # the six elastic parameters are 'any two of six' by documentation, resolved before the base-class check
    for p in missing:
        kw = {k: v for k, v in rec['kwargs'].items() if k != p}
        try:
            if '.nohblackboxeos.' in path:
                continue
            cat.quiet(c, **kw)
            o.fail('missing parameter without default raises ValueError', name, param=p, outcome='accepted')
        except ValueError:
            o.checks += 1
        except Exception as e:  # noqa
            o.fail('missing parameter without default raises ValueError', name, param=p, outcome=type(e).__name__)
        o.label('has-required-parameter')
    o.nontrivial = True
    return o


OBLIGATIONS = [
    Obligation('call-return-contract', contract_case(), check_contract, quick=700, thorough=8000),
    Obligation('call-return-contract-slow-classes', contract_case(include_slow=True), check_contract, quick=0, thorough=96),
    Obligation('constructor-contract', ctor_case(), check_ctor, quick=500, thorough=5000),
]
# coverage-guided supplement (atheris / libFuzzer over the same strategy and oracle; see vp/fuzz.py)
OBLIGATIONS.append(fuzzed([o for o in OBLIGATIONS if o.name == 'constructor-contract'][0], quick=0, thorough=30000, modules=CHEAP_MODULES))
