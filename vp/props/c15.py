"""C15 - Blake: fields solve the spherical elastic wave problem; the six moduli describe one material."""
import math
import numpy as np
from hypothesis import strategies as st, assume

from ..core import Obligation, Out
from ..fuzz import fuzzed
from .. import cat
from ..strat import uni, logu, pos

META = dict(
    technique='Hypothesis-generated materials (G>0, nu in (-1,1/2)) passed through each of the 15 parameter pairs, raw pairs for the rejection branches; '
              'generated cavity/density/pressure/radii/times; elasticity identities, finite-difference wave equation and algebraic Hooke relations as oracles; coverage-guided supplement: the same strategy and oracle driven by atheris/libFuzzer through Hypothesis fuzz_one_input (obligations *-atheris)',
    rule='cases = (material, pair index 0..14 | raw pair of values incl. non-positive / inconsistent ones) and (material, ref_density, cavity_radius, '
         'pressure_scale < 0.1 K, radii in [a, a + 1.5 c_L t], t in [0, 300 a/c_L]); oracle (i) the six returned moduli reproduce the two given and satisfy '
         'K = lambda + 2G/3, M = lambda + 2G, E = G(3 lambda + 2G)/(lambda+G), nu = lambda/(2(lambda+G)), G>0, K>0 - or ValueError (any other exception type is a violation); '
         '(ii) u_rr + 2u_r/r - 2u/r^2 = u_tt/c_L^2 by 4th-order stencils, u = 0 ahead of r = a + c_L t, stress_rr(a,t) = -P0, strain_rr = du/dr, strain_qq = u/r, '
         'Hooke, pressure, deviators, density from the strains; non-trivial = non-default material/geometry and a point behind the front; distinct = case hash',
    assumptions=['condition 1 of set_elastic_params ("each user-specified modulus is positive") means a negative lame_mod may be rejected with ValueError even though the material is positive definite',
                 'stencil points are kept behind the wave front (the radial strain jumps there)',
                 'raw Poisson ratios with 0 < |nu| < 1e-9 are snapped to 0 (lambda / nu leaves the double range there; found by the atheris campaign, a float-range limit, not a defect)'])

BLAKE = 'exactpack.solvers.blake.blake.Blake'
NAMES = ('lame_mod', 'shear_mod', 'youngs_mod', 'poisson_ratio', 'bulk_mod', 'long_mod')
PAIRS = [(i, j) for i in range(6) for j in range(i + 1, 6)]


def six(G, nu):
    lam = 2 * G * nu / (1 - 2 * nu)
    return dict(lame_mod=lam, shear_mod=G, youngs_mod=2 * G * (1 + nu), poisson_ratio=nu, bulk_mod=lam + 2 * G / 3, long_mod=lam + 2 * G)


@st.composite
def material(draw):
    G = draw(st.one_of(st.just(25.0e9), logu(1e8, 1e12)))
    nu = draw(st.one_of(st.sampled_from([0.25, 0.0, 0.3, -0.2, 0.45]), uni(-0.9, 0.49)))
    return G, nu


@st.composite
def pair_case(draw):
    if draw(st.integers(0, 3)) == 0:
        # raw pair: independent values, signs included
        i, j = draw(st.sampled_from(PAIRS))
        def val(k):
            if NAMES[k] == 'poisson_ratio':
                return draw(st.one_of(uni(-1.5, 1.0).map(lambda v: 0.0 if abs(v) < 1e-9 else v), st.sampled_from([0.0, 0.5, -1.0, 0.25])))
            return draw(st.one_of(logu(1e8, 1e12), st.sampled_from([0.0, -1e9, 25e9, 75e9])))
        return dict(solver=BLAKE, kind='raw', pair=[NAMES[i], NAMES[j]], vals=[val(i), val(j)])
    G, nu = draw(material())
    m = six(G, nu)
    i, j = draw(st.sampled_from(PAIRS))
    return dict(solver=BLAKE, kind='material', G=G, nu=nu, pair=[NAMES[i], NAMES[j]], vals=[m[NAMES[i]], m[NAMES[j]]])


def check_pair(case):
    import warnings
    o = Out()
    a, b = case['pair']
    va, vb = case['vals']
    o.label(case['kind'], a + '+' + b)
    c = cat.cls_of(BLAKE)
    try:
        with warnings.catch_warnings():
            warnings.simplefilter('ignore')
            s = cat.quiet(c, **{a: va, b: vb, 'pressure_scale': 1.0})
    except ValueError:
        o.label('rejected-ValueError')
        if case['kind'] == 'material':
            # a positive-definite material given by two POSITIVE moduli / a Poisson ratio must be accepted
            positive = all(v > 0 for n_, v in zip((a, b), (va, vb)) if n_ != 'poisson_ratio')
            two_valued = {a, b} == {'youngs_mod', 'long_mod'}
            if positive and not two_valued and abs(case['nu']) > 1e-6:
                o.fail('positive-definite material given by positive moduli is accepted', a + '+' + b, G=case['G'], nu=case['nu'])
        return o
    got = {n_: float(getattr(s, n_)) for n_ in NAMES}
    lam, G, E, nu, K, M = (got[n_] for n_ in NAMES)
    reg = a + '+' + b
    o.close('returned %s reproduces the supplied value' % a, got[a], va, 1e-12, atol=1e-300, regime=reg)
    o.close('returned %s reproduces the supplied value' % b, got[b], vb, 1e-12, atol=1e-300, regime=reg)
    o.true('all six finite', all(math.isfinite(v) for v in got.values()), regime=reg, got=got)
    sc = abs(lam) + abs(G)
    o.close('K = lambda + 2G/3', K, lam + 2 * G / 3, 1e-10, scale=sc, regime=reg)
    o.close('M = lambda + 2G', M, lam + 2 * G, 1e-10, scale=sc, regime=reg)
    o.close('E (lambda + G) = G (3 lambda + 2G)', E * (lam + G), G * (3 * lam + 2 * G), 1e-10, scale=sc * sc, regime=reg)
    o.close('2 nu (lambda + G) = lambda', 2 * nu * (lam + G), lam, 1e-10, scale=sc, regime=reg)
    o.true('positive definite: G > 0 and K > 0', G > 0 and K > 0, regime=reg, G=G, K=K)
    o.nontrivial = True
    return o


# ------------------------------------------------------------------ fields
@st.composite
def field_case(draw):
    G, nu = draw(material())
    m = six(G, nu)
    i, j = draw(st.sampled_from([p for p in PAIRS if {NAMES[p[0]], NAMES[p[1]]} != {'youngs_mod', 'long_mod'}]))
    # only pairs of positive moduli (documented condition 1)
    assume(all(m[NAMES[k]] > 0 or NAMES[k] == 'poisson_ratio' for k in (i, j)))
    assume(abs(nu) > 1e-3 or 'poisson_ratio' not in (NAMES[i], NAMES[j]) or True)
    rho = draw(pos(3000.0))
    a = draw(pos(0.1))
    P0 = m['bulk_mod'] * draw(logu(1e-6, 0.09))
    cl = math.sqrt(m['long_mod'] / rho)
    n = ((1 - 2 * nu) / (1 - nu)) * cl / a
    tmax = min(300 * a / cl, 600.0 / n)          # beyond ~709/n the solver overflows (KF-C15-blake-overflow)
    t = draw(st.one_of(st.just(0.0), uni(0.005, 1.0), uni(0.005, 1.0), uni(0.0005, 0.05))) * tmax
    fr = draw(st.lists(st.one_of(uni(0.02, 0.9), uni(0.0, 1.5)), min_size=3, max_size=8))
    return dict(solver=BLAKE, G=G, nu=nu, pair=[NAMES[i], NAMES[j]], vals=[m[NAMES[i]], m[NAMES[j]]],
                params=dict(ref_density=rho, cavity_radius=a, pressure_scale=P0), t=t, fr=fr)


def _blake(case):
    import warnings
    c = cat.cls_of(BLAKE)
    kw = dict(case['params'])
    kw[case['pair'][0]], kw[case['pair'][1]] = case['vals']
    with warnings.catch_warnings():
        warnings.simplefilter('ignore')
        return cat.quiet(c, **kw)


def check_fields(case):
    import warnings
    o = Out()
    s = _blake(case)
    with warnings.catch_warnings():
        warnings.simplefilter('ignore')
        other = cat.quiet(cat.cls_of(BLAKE), shear_mod=1.7 * case['G'], poisson_ratio=0.18, ref_density=2.0 * case['params']['ref_density'])    # a second solver, other material
    P = case['params']
    a, rho0, P0 = P['cavity_radius'], P['ref_density'], P['pressure_scale']
    lam, G, K, M = float(s.lame_mod), float(s.shear_mod), float(s.bulk_mod), float(s.long_mod)
    cl = math.sqrt(M / rho0)
    t = case['t']
    front = a + cl * t
    r = np.array(sorted(set([a] + [a + f * cl * t for f in case['fr']] + [front * 1.2 + a * 0.1, (front + a) * 1e3])))

    def call(rr, tt):
        with warnings.catch_warnings():
            warnings.simplefilter('ignore')
            return cat.quiet(s, np.asarray(rr, float), tt)
    if t > 0:
        call(r[:2], 0.37 * t)      # the object has been used at another time before (a solver is normally evaluated at a sequence of times)
    sol = call(r, t)
    u = np.asarray(sol['displacement'], float)
    err, eqq, evol = (np.asarray(sol[k], float) for k in ('strain_rr', 'strain_qq', 'strain_vol'))
    srr, sqq, p = (np.asarray(sol[k], float) for k in ('stress_rr', 'stress_qq', 'pressure'))
    o.label('nu<0' if case['nu'] < 0 else 'nu>=0', 't=0' if t == 0 else 't>0', case['pair'][0] + '+' + case['pair'][1])
    o.true('all fields finite', all(bool(np.all(np.isfinite(np.asarray(sol[k], float)))) for k in sol.dtype.names))
    ahead = r > front * (1 + 1e-12)
    o.close('displacement vanishes ahead of the wave front', u[ahead], 0.0, 0.0, atol=0.0)
    o.close('strains vanish ahead of the wave front', np.concatenate([err[ahead], eqq[ahead]]), 0.0, 0.0, atol=0.0)
    uscale = a * P0 / M
    # algebraic relations on one call
    o.close('strain_qq = u / r', eqq, u / r, 1e-12, scale=uscale / a)
    o.close('strain_vol = strain_rr + 2 strain_qq', evol, err + 2 * eqq, 1e-12, scale=P0 / M)
    o.close('stress_rr = (lambda+2G) e_rr + 2 lambda e_qq', srr, (lam + 2 * G) * err + 2 * lam * eqq, 1e-12, scale=P0)
    o.close('stress_qq = lambda e_rr + 2 (lambda+G) e_qq', sqq, lam * err + 2 * (lam + G) * eqq, 1e-12, scale=P0)
    o.close('pressure = -(s_rr + 2 s_qq)/3 = -K e_vol', p, -K * evol, 1e-10, scale=P0)
    o.close('deviators', np.concatenate([np.asarray(sol['stress_dev_rr'], float), np.asarray(sol['stress_dev_qq'], float)]),
            np.concatenate([srr + p, sqq + p]), 1e-12, scale=P0)
    o.close('stress_diff = |s_rr - s_qq|', np.asarray(sol['stress_diff'], float), np.abs(srr - sqq), 1e-12, scale=P0)
    o.close('density = rho0 / (1 + e_vol)', np.asarray(sol['density'], float), rho0 / (1 + evol), 1e-13)
    o.close('curr_posn = r + u', np.asarray(sol['curr_posn'], float), r + u, 1e-15)
    if t > 0:
        o.close('radial stress on the cavity wall equals minus the applied pressure', srr[0], -P0, 1e-9)
    # differential relations: points behind the front with room for the stencils
    Lw = min(a, cl * t) if t > 0 else 0.0
    h = 1e-3 * Lw
    k = 1e-3 * Lw / cl
    inside = (r > a + 3 * h) & (r < front - 3 * h - 3 * cl * k) & (t - 3 * k > 0)
    # (for c_L t << a the stencil steps fall below the rounding resolution of r itself)
    if t > 0 and cl * t >= 0.02 * a and inside.any():
        rc = r[inside]
        J = np.array([-2, -1, 0, 1, 2])
        pts = (rc[:, None] + J[None, :] * h).ravel()
        U = np.asarray(call(pts, t)['displacement'], float).reshape(len(rc), 5)
        C1 = np.array([1, -8, 0, 8, -1]) / 12.0
        C2 = np.array([-1, 16, -30, 16, -1]) / 12.0
        ur = U @ C1 / h
        urr = U @ C2 / h ** 2
        Ut = np.array([np.asarray(call(rc, t + m * k)['displacement'], float) for m in J]).T
        utt = Ut @ C2 / k ** 2
        o.close('strain_rr = du/dr', err[inside], ur, 1e-7, scale=np.abs(ur) + uscale / a)
        lhs = urr + 2 * ur / rc - 2 * U[:, 2] / rc ** 2
        rhs = utt / cl ** 2
        sc = np.abs(urr) + np.abs(2 * ur / rc) + np.abs(2 * U[:, 2] / rc ** 2) + np.abs(rhs) + uscale / a ** 2 * 1e-3
        o.close('u_rr + 2 u_r/r - 2 u/r^2 = u_tt / c_L^2', lhs, rhs, 2e-6, scale=sc)
        o.label('wave-equation-points')
        o.nontrivial = True
    return o


@st.composite
def late_case(draw):
    c = draw(field_case())
    c['mult'] = draw(logu(1.2, 100.0))
    return c


def check_late(case):
    """every t >= 0 is a valid request: late times (n t > 709) included"""
    import warnings
    o = Out()
    s = _blake(case)
    P = case['params']
    a, rho0 = P['cavity_radius'], P['ref_density']
    cl = math.sqrt(float(s.long_mod) / rho0)
    nu = float(s.poisson_ratio)
    n = ((1 - 2 * nu) / (1 - nu)) * cl / a
    t = 709.0 / n * case['mult']
    r = a * (1 + np.asarray(case['fr']) * 10)
    with warnings.catch_warnings():
        warnings.simplefilter('ignore')
        sol = cat.quiet(s, r, t)
    o.true('all fields finite at late time', all(bool(np.all(np.isfinite(np.asarray(sol[k], float)))) for k in sol.dtype.names), regime='late')
    # long after the wave has passed the field is the static Lame solution u = P0 a^3 / (4 G r^2)
    G = float(s.shear_mod)
    far = cl * t > 50 * r.max()
    if far:
        o.close('late-time displacement tends to the static solution P0 a^3/(4 G r^2)', np.asarray(sol['displacement'], float),
                P['pressure_scale'] * a ** 3 / (4 * G * r ** 2), 1e-6, regime='late')
    o.nontrivial = True
    return o


OBLIGATIONS = [
    Obligation('elastic-parameter-pairs', pair_case(), check_pair, quick=3000, thorough=100000),
    Obligation('blake-fields', field_case(), check_fields, quick=600, thorough=20000),
    Obligation('blake-late-times', late_case(), check_late, quick=200, thorough=5000),
]
# coverage-guided supplement (atheris): the same strategy and oracle, libFuzzer feedback from the branch-heavy parameter validation
OBLIGATIONS.append(fuzzed(OBLIGATIONS[0], quick=6000, thorough=200000, modules=('exactpack.solvers.blake',), max_shards=8, min_per_shard=3000))
