"""C07 - independent routes to the same solution agree."""
import math
import numpy as np
from hypothesis import strategies as st

from ..core import Obligation, Out
from .. import cat, cogcat
from ..strat import uni, logu, pos, gamma_gt1, geometry

META = dict(
    technique='Hypothesis differential testing: two public solver routes on generated common parameter sets; SDRZ vs the closed form of its documentation',
    rule='cases = generated common parameter sets/points/times for each documented pair of routes (IGEOS vs GenEOS, Noh vs Cog19 vs black-box Noh, '
         'Noh2 vs Noh2Cog vs Cog1(b=0), every geometry wrapper vs its general class, sandwiches vs rod, BC3 vs mirrored BC4, Kenamond 2-D vs 3-D, '
         'SDRZ vs documented closed form); oracle = field-by-field agreement to the accuracy of the less accurate route (bitwise for wrappers); '
         'non-trivial = parameters differ from class defaults; distinct = hash of the case',
    assumptions=['general-EOS Riemann values are interpolants on a 4001-point grid: 2.5 cells around each wave excluded, tolerance 1e-3',
                 'series solutions compared only after the time at which the first neglected mode is below 1e-13'])

GAS = ('density', 'pressure', 'specific_internal_energy', 'velocity')


def _arr(sol, k):
    return np.asarray(sol[k], float)


# ------------------------------------------------------------------ IGEOS vs GenEOS
def check_ig_vs_gen(case):
    o = Out()
    P = case['params']
    # the same left/right states have just been solved with another material model in this process (a JWL explosive): nothing of it may survive
    try:
        cat.run(dict(case, params=dict(P, problem='JWL', A=8.545, B=0.205, R1=4.6, R2=1.35, r0=1.84, e0=0.0)), x=np.asarray(case['x'][:1], float))
    except Exception:  # noqa  (the JWL problem itself may have no solution for these states)
        pass
    sg = cat.make_solver(case)
    x = np.asarray(case['x'], float)
    G = cat.run(case, solver=sg, x=x)
    Pi = {k: v for k, v in P.items() if k not in ('num_int_pts', 'num_x_pts')}
    I = cat.run(dict(solver=cat.RIEMANN_IG, params=Pi, t=case['t']), x=x)
    grid = np.asarray(sg.x, float)
    cell = (grid.max() - grid.min()) / P['num_x_pts']
    waves = P['xd0'] + case['t'] * np.asarray(case['speeds'])
    keep = np.all(np.abs(x[:, None] - waves[None, :]) > 2.5 * cell, axis=1)
    o.label(case['pattern'], 'kept%d' % keep.sum(), 'ul!=ur' if P['ul'] != P['ur'] else 'ul==ur')
    if not keep.any():
        return o
    cl, cr = math.sqrt(P['gl'] * P['pl'] / P['rl']), math.sqrt(P['gr'] * P['pr'] / P['rr'])
    sc = dict(density=max(P['rl'], P['rr']), pressure=max(P['pl'], P['pr'], case['pstar']),
              velocity=max(cl, cr) + abs(P['ul'] - P['ur']),
              specific_internal_energy=max(P['pl'] / P['rl'] / (P['gl'] - 1), P['pr'] / P['rr'] / (P['gr'] - 1)))
    for k in GAS:
        o.close('IGEOS %s == GenEOS %s' % (k, k), _arr(I, k)[keep], _arr(G, k)[keep], 1e-3, scale=sc[k], regime=case['pattern'])
    o.nontrivial = P['ul'] != P['ur'] or P['gl'] != 1.4 or P['gr'] != 1.4
    return o


# ------------------------------------------------------------------ Noh / Cog19 / black-box Noh
@st.composite
def noh_triple(draw):
    g = draw(gamma_gt1(1.15, 3.0))
    geom = draw(geometry())
    rho0, u0 = draw(pos(1.0)), -draw(pos(1.0))
    t = draw(logu(0.02, 5.0))
    rs = abs(u0) * t * (g - 1) / 2
    fr = draw(st.lists(logu(0.05, 10.0), min_size=2, max_size=8))
    x = [rs * f for f in fr if abs(f - 1) > 0.05] or [rs * 0.5]
    pert = [draw(uni(0.9, 1.15)) for _ in range(3)]
    return dict(solver='noh-cog19-bbnoh', gamma=g, geometry=geom, rho0=rho0, u0=u0, t=t, x=x,
                Gamma=draw(pos(40.0)), pert=pert)


def check_noh_triple(case):
    o = Out()
    g, geom, rho0, u0 = case['gamma'], case['geometry'], case['rho0'], case['u0']
    x = np.asarray(case['x'], float)
    A = cat.run(dict(solver=cat.NOH + 'Noh', params=dict(geometry=geom, gamma=g, rho0=rho0, u0=u0), t=case['t']), x=x)
    B = cat.run(dict(solver=cogcat.path(19), params=dict(geometry=geom, gamma=g, rho0=rho0, u0=u0, Gamma=case['Gamma']), t=case['t']), x=x)
    rho_s = rho0 * ((g + 1) / (g - 1)) ** geom
    guess = [rho_s * case['pert'][0], 0.5 * u0 ** 2 * case['pert'][1], 0.5 * (g - 1) * abs(u0) * case['pert'][2]]
    bb = dict(solver=cat.BBNOH + 'NohBlackBoxEos', params=dict(geometry=geom, rho0=rho0, u0=u0),
              eos=dict(cls='ideal_gas_eos', args=dict(gamma=g)),
              ic=dict(density=rho0, velocity=u0, pressure=0, symmetry=geom - 1), guess=guess, t=case['t'])
    C = cat.run(bb, x=x)
    sc = dict(density=rho_s, pressure=(g - 1) * rho_s * 0.5 * u0 ** 2, specific_internal_energy=0.5 * u0 ** 2, velocity=abs(u0))
    o.label('geom%d' % geom)
    for k in GAS:
        o.close('Noh %s == Cog19 %s' % (k, k), _arr(A, k), _arr(B, k), 1e-10, scale=sc[k])
        o.close('Noh %s == black-box Noh(ideal gas) %s' % (k, k), _arr(A, k), _arr(C, k), 1e-7, scale=sc[k])
    o.nontrivial = abs(g - 5.0 / 3.0) > 1e-9 or rho0 != 1.0 or u0 != -1.0
    return o


# ------------------------------------------------------------------ Noh2 / Noh2Cog / Cog1(b=0)
@st.composite
def noh2_triple(draw):
    return dict(solver='noh2-noh2cog-cog1', gamma=draw(gamma_gt1()), geometry=draw(geometry()), rho0=draw(pos(1.0)), e0=draw(pos(1.0)),
                t=draw(uni(0.01, 0.95)), x=draw(st.lists(logu(0.01, 10.0), min_size=1, max_size=6)), Gamma=draw(pos(40.0)))


def check_noh2_triple(case):
    o = Out()
    g, geom, rho0, e0, t = case['gamma'], case['geometry'], case['rho0'], case['e0'], case['t']
    x = np.asarray(case['x'], float)
    p = dict(geometry=geom, gamma=g, rho0=rho0, e0=e0)
    A = cat.run(dict(solver=cat.NOH2 + 'Noh2', params=p, t=t), x=x)
    B = cat.run(dict(solver='exactpack.solvers.noh2.noh2_cog.Noh2Cog', params=p, t=t), x=x)
    G = case['Gamma']
    C = cat.run(dict(solver=cogcat.path(1), params=dict(geometry=geom, gamma=g, rho0=rho0, temp0=e0 * (g - 1) / G, b=0.0, Gamma=G), t=1 - t), x=x)
    o.label('geom%d' % geom)
    for k in GAS:
        sgn = -1.0 if k == 'velocity' else 1.0
        o.close('Noh2 %s == Noh2Cog %s' % (k, k), _arr(A, k), _arr(B, k), 1e-11)
        o.close('Noh2 %s == Cog1(b=0, t->1-t, u->-u) %s' % (k, k), _arr(A, k), sgn * _arr(C, k), 1e-11)
    o.nontrivial = True
    return o


# ------------------------------------------------------------------ geometry wrappers vs general classes
def _bitwise(o, A, B, what):
    o.true(what + ': same field names', A.dtype.names == B.dtype.names, a=str(A.dtype.names), b=str(B.dtype.names))
    if A.dtype.names != B.dtype.names:
        return
    for k in A.dtype.names:
        a, b = np.asarray(A[k]), np.asarray(B[k])
        same = bool(np.all((a == b) | ((a != a) & (b != b))))
        o.true(what + ': identical values', same, field=k)


@st.composite
def wrapper_case(draw):
    fam = draw(st.sampled_from(['cog'] * 5 + ['noh', 'noh2', 'bbnoh']))
    if fam == 'cog':
        c = draw(cogcat.cog_case(ids=[n for n in cogcat.COG_IDS if n not in cogcat.NO_GEOM_PARAM], wrappers=False))
        return dict(c, fam=fam)
    if fam == 'noh':
        return dict(solver='noh-wrapper', fam=fam, gamma=draw(gamma_gt1()), geometry=draw(geometry()), t=draw(logu(0.01, 10.0)),
                    x=draw(st.lists(logu(0.001, 10.0), min_size=1, max_size=6)))
    if fam == 'noh2':
        return dict(solver='noh2-wrapper', fam=fam, gamma=draw(gamma_gt1()), geometry=draw(geometry()), rho0=draw(pos(1.0)), e0=draw(pos(1.0)),
                    t=draw(uni(0.01, 0.95)), x=draw(st.lists(logu(0.001, 10.0), min_size=1, max_size=6)))
    c = draw(cat.bbnoh_case())
    return dict(c, fam=fam)


def check_wrapper(case):
    o = Out()
    fam = case['fam']
    o.label(fam)
    names = {1: 'Planar', 2: 'Cylindrical', 3: 'Spherical'}
    if fam == 'cog':
        n, geom = case['cog'], case['geometry']
        A = cat.run(case)
        wp = {k: v for k, v in case['params'].items() if k != 'geometry'}
        B = cat.run(dict(case, solver=cogcat.path(n, geom), params=wp))
        _bitwise(o, A, B, 'Cog%d vs %sCog%d' % (n, names[geom], n))
        o.label('cog%d' % n)
    elif fam == 'noh':
        geom = case['geometry']
        A = cat.run(dict(solver=cat.NOH + 'Noh', params=dict(geometry=geom, gamma=case['gamma']), t=case['t'], x=case['x']))
        B = cat.run(dict(solver=cat.NOH + names[geom] + 'Noh', params=dict(gamma=case['gamma']), t=case['t'], x=case['x']))
        _bitwise(o, A, B, 'Noh vs %sNoh' % names[geom])
    elif fam == 'noh2':
        geom = case['geometry']
        p = dict(gamma=case['gamma'], rho0=case['rho0'], e0=case['e0'])
        A = cat.run(dict(solver=cat.NOH2 + 'Noh2', params=dict(p, geometry=geom), t=case['t'], x=case['x']))
        B = cat.run(dict(solver=cat.NOH2 + names[geom] + 'Noh2', params=p, t=case['t'], x=case['x']))
        _bitwise(o, A, B, 'Noh2 vs %sNoh2' % names[geom])
    else:
        sym = case['symmetry']
        g = dict(case, solver=cat.BBNOH + 'NohBlackBoxEos', params=dict(geometry=sym + 1))
        w = dict(case, solver=cat.BBNOH + names[sym + 1] + 'NohBlackBox', params={})
        A, B = cat.run(g), cat.run(w)
        _bitwise(o, A, B, 'NohBlackBoxEos vs %sNohBlackBox' % names[sym + 1])
    o.nontrivial = True
    return o


@st.composite
def sedov_wrapper_case(draw):
    return dict(solver='sedov-wrapper', geometry=draw(geometry()), gamma=draw(st.sampled_from([1.4, 5.0 / 3.0, 1.2, 2.0, 3.0])),
                t=draw(logu(0.1, 3.0)), x=draw(st.lists(uni(0.01, 1.5), min_size=2, max_size=6)))


def check_sedov_wrapper(case):
    o = Out()
    geom = case['geometry']
    name = {1: 'Planar', 2: 'Cylindrical', 3: 'Spherical'}[geom]
    W = cat.cls_of('exactpack.solvers.sedov.' + name + 'Sedov')
    A = cat.run(dict(solver=cat.SEDOV, params=dict(geometry=geom, gamma=case['gamma'], eblast=W.eblast), t=case['t'], x=case['x']))
    B = cat.run(dict(solver='exactpack.solvers.sedov.' + name + 'Sedov', params=dict(gamma=case['gamma']), t=case['t'], x=case['x']))
    _bitwise(o, A, B, 'Sedov vs %sSedov' % name)
    o.label('geom%d' % geom)
    o.nontrivial = case['gamma'] != 1.4
    return o


# ------------------------------------------------------------------ heat: sandwiches vs rod, BC3 vs mirrored BC4
@st.composite
def sandwich_case(draw):
    kind = draw(st.sampled_from(['PlanarSandwich', 'PlanarSandwichHot', 'PlanarSandwichHalf']))
    L = draw(st.one_of(st.just(2.0), logu(0.3, 5.0)))
    kappa = draw(st.one_of(st.just(1.0), logu(0.1, 10.0)))
    N = draw(st.sampled_from([100, 300]))
    d = dict(solver=cat.HEAT + {'PlanarSandwich': 'planar_sandwich.', 'PlanarSandwichHot': 'planar_sandwich_hot.', 'PlanarSandwichHalf': 'planar_sandwich_half.'}[kind] + kind,
             kind=kind, L=L, kappa=kappa, Nsum=N, TL=draw(uni(-3.0, 5.0)), TR=draw(uni(-3.0, 5.0)),
             c1=draw(uni(-2.0, 2.0)), c2=draw(uni(-2.0, 2.0)), t=draw(logu(1e-3, 2.0)) * L * L / kappa,
             fr=draw(st.lists(uni(0.0, 1.0), min_size=2, max_size=8)))
    return d


def check_sandwich(case):
    o = Out()
    k = case['kind']
    base = dict(L=case['L'], kappa=case['kappa'], Nsum=case['Nsum'], TL=case['TL'], TR=case['TR'])
    if k == 'PlanarSandwich':
        sp = dict(base, TB=case['c1'], TT=case['c2'])
        rp = dict(base, alpha1=1, beta1=0, gamma1=case['c1'], alpha2=1, beta2=0, gamma2=case['c2'])
    elif k == 'PlanarSandwichHot':
        sp = dict(base, F=case['c1'])
        rp = dict(base, alpha1=0, beta1=1, gamma1=case['c1'], alpha2=0, beta2=1, gamma2=case['c1'])
    else:
        sp = dict(base, TB=case['c1'], FT=case['c2'])
        rp = dict(base, alpha1=1, beta1=0, gamma1=case['c1'], alpha2=0, beta2=1, gamma2=case['c2'])
    x = np.asarray(case['fr']) * case['L']
    A = cat.run(dict(solver=case['solver'], params=sp, t=case['t']), x=x)
    B = cat.run(dict(solver=cat.ROD, params=rp, t=case['t']), x=x)
    o.label(k)
    o.close('%s == Rod1D with the matching boundary condition' % k, _arr(A, 'temperature'), _arr(B, 'temperature'), 1e-12,
            scale=abs(case['TL']) + abs(case['TR']) + abs(case['c1']) + abs(case['c2']) * max(1, case['L']) + 1e-9)
    o.nontrivial = True
    return o


@st.composite
def bc34_case(draw):
    p, _ = draw(cat.rod_params(bc=3))
    tmin = cat.rod_tmin(p, 3)
    return dict(solver=cat.ROD, params=p, t=tmin * (1 + draw(logu(0.01, 1e3))), fr=draw(st.lists(uni(0.0, 1.0), min_size=2, max_size=8)))


def check_bc34(case):
    o = Out()
    p = case['params']
    L = p['L']
    x = np.asarray(case['fr']) * L
    A = cat.run(case, x=x)
    q = dict(p, alpha1=0.0, beta1=p['beta2'], gamma1=-p['gamma2'], alpha2=p['alpha1'], beta2=0.0, gamma2=p['gamma1'], TL=p['TR'], TR=p['TL'])
    B = cat.run(dict(case, params=q), x=L - x)
    sc = abs(p['TL']) + abs(p['TR']) + abs(p['gamma1'] / p['alpha1']) + abs(p['gamma2'] / p['beta2']) * L + 1e-9
    o.close('rod BC3(x) == rod BC4 mirrored (L-x)', _arr(A, 'temperature'), _arr(B, 'temperature'), 1e-9, scale=sc)
    o.nontrivial = p['gamma1'] != 0 or p['gamma2'] != 0 or p['TL'] != p['TR']
    return o


# ------------------------------------------------------------------ Kenamond 2-D vs 3-D
@st.composite
def ken23_case(draw):
    which = draw(st.sampled_from([1, 2, 3]))
    phi = draw(cat.angle)
    if which == 1:
        p = draw(cat.ken1_params())
        p['geometry'] = 2
        p['x_d'] = p['x_d'][:2]
        pts = [[draw(uni(-8.0, 8.0)), draw(uni(-8.0, 8.0))] for _ in range(draw(st.integers(2, 8)))]
        return dict(solver=cat.KEN1, which=1, params=p, pts=pts, phi=phi, z=draw(uni(-3.0, 3.0)), t=0.0)
    if which == 2:
        p = draw(cat.ken2_params())
        p['geometry'] = 2
        ext = max(abs(a) for a in p['dets']) * 1.2
        pts = [[draw(uni(-1.0, 1.0)) * ext, draw(uni(-1.0, 1.0)) * ext] for _ in range(draw(st.integers(2, 8)))]
        return dict(solver=cat.KEN2, which=2, params=p, pts=pts, phi=phi, t=0.0)
    p = draw(cat.ken3_params())
    p['geometry'] = 2
    xd = p['x_d'][:2]
    nrm = math.hypot(*xd)
    if nrm <= p['R'] * 1.01:
        xd = [0.0, p['R'] * 1.5]
    p['x_d'] = xd
    pts = []
    for _ in range(draw(st.integers(2, 8))):
        d = draw(cat.unit_vec(2))
        l = p['R'] * (1 + draw(logu(1e-3, 5.0)))
        pts.append([d[0] * l, d[1] * l])
    return dict(solver=cat.KEN3, which=3, params=p, pts=pts, phi=phi, t=0.0)


def check_ken23(case):
    o = Out()
    p = case['params']
    X = np.asarray(case['pts'], float)
    A = _arr(cat.run(case, x=X), 'burntime')
    w = case['which']
    phi = case['phi']
    if w == 1:
        q = dict(p, geometry=3, x_d=list(p['x_d']) + [case['z']])
        Y = np.column_stack([X, np.full(len(X), case['z'])])
    elif w == 2:
        # 2-D axis is y, 3-D axis is z: (x, y) -> (x cos phi, x sin phi, y)
        q = dict(p, geometry=3)
        Y = np.column_stack([X[:, 0] * math.cos(phi), X[:, 0] * math.sin(phi), X[:, 1]])
    else:
        # embed the plane rotated about the x axis: (x, y) -> (x, y cos phi, y sin phi)
        def emb(v):
            return [v[0], v[1] * math.cos(phi), v[1] * math.sin(phi)]
        q = dict(p, geometry=3, x_d=emb(p['x_d']))
        Y = np.array([emb(v) for v in X])
        r = np.linalg.norm(Y, axis=1)
        Y = np.where((r < p['R'])[:, None], Y * (p['R'] * (1 + 4e-16) / r)[:, None], Y)
    B = _arr(cat.run(dict(case, params=q), x=Y), 'burntime')
    D = p.get('D', p.get('D2'))
    scale = np.max(np.abs(A)) + np.max(np.linalg.norm(X, axis=1)) / D + 1e-9
    atol = 6e-8 * p['R'] / p['D'] if w == 3 else 0.0
    o.close('Kenamond%d 2-D == 3-D on the common plane' % w, A, B, 1e-11, atol=atol, scale=scale)
    o.label('kenamond%d' % w)
    o.nontrivial = abs(math.sin(phi)) > 1e-6 or w == 1
    return o


# ------------------------------------------------------------------ SDRZ vs the closed form in its documentation
@st.composite
def sdrz_case(draw):
    p = draw(cat.sdrz_params())
    t = draw(st.one_of(uni(0.1, 1.0), uni(1.0, 2.5), st.sampled_from([0.5, 1.0, 1.2, 2.0])))
    fr = draw(st.lists(uni(-0.2, 1.3), min_size=3, max_size=10))
    return dict(solver=cat.SDRZ, params=p, t=t, fr=fr)


def sdrz_reference(P, t, x):
    """closed form of exactpack/solvers/sdrz/__init__.py (D = D_j): state as a function of the
    particle time tau since shock passage, x_rel(tau) inverted analytically"""
    D, rho0, g = P['D'], P['rho_0'], P['gamma']
    pj = rho0 * D * D / (g + 1)
    rhoj = rho0 * (g + 1) / g
    A = rho0 * D / rhoj

    def xrel(tau):
        tau = np.asarray(tau, float)
        x1 = A * ((1 - 1 / g) + 1 / (2 * g))
        u1 = (1 - rho0 / rhoj) * D
        return np.where(tau <= 1, A * ((1 - 1 / g) * tau + tau ** 2 / (2 * g)), x1 + (tau - 1) * (D - u1))
    xr = D * t - np.asarray(x, float)
    x1 = float(xrel(1.0))
    # invert: quadratic for tau<=1, linear beyond
    with np.errstate(invalid='ignore'):
        tq = -(g - 1) + np.sqrt((g - 1) ** 2 + 2 * g * xr / A)
    u1 = (1 - rho0 / rhoj) * D
    tau = np.where(xr <= x1, tq, 1 + (xr - x1) / (D - u1))
    tau = np.minimum(tau, t)          # material processed before t=0 keeps the state of tau = t (the solver's convention)
    lam = np.where(tau < 1, tau * (2 - tau), 1.0)
    gg = np.sqrt(1 - lam)
    p = pj * (1 + gg)
    rho = rhoj * g / (g - gg)
    u = (1 - rho0 / rho) * D
    ahead = xr < 0
    return dict(pressure=np.where(ahead, 0.0, p), density=np.where(ahead, rho0, rho), velocity=np.where(ahead, 0.0, u),
                sound_speed=np.where(ahead, 0.0, np.sqrt(g * p / rho)), reaction_progress=np.where(ahead, 0.0, lam)), tau, xr


def check_sdrz(case):
    o = Out()
    P = case['params']
    t = case['t']
    front = P['D'] * t
    x = np.array([front * (1 - f) for f in case['fr']])
    ref, tau, xr = sdrz_reference(P, t, x)
    sol = cat.run(case, x=x)
    dt = t / 200.0
    # table resolution: exclude the cell containing the front and the cell containing the kink at tau = 1
    keep = (np.abs(xr) > 2 * P['D'] * dt) & (np.abs(tau - 1.0) > 1.5 * dt) & (np.abs(tau - t) > 1.5 * dt)
    o.label('t>1' if t > 1 else 't<=1', 'kept%d' % keep.sum())
    if not keep.any():
        return o
    pj = P['rho_0'] * P['D'] ** 2 / (P['gamma'] + 1)
    sc = dict(pressure=2 * pj, density=P['rho_0'] * 2, velocity=P['D'], sound_speed=P['D'], reaction_progress=1.0)
    # the solver interpolates linearly in a 201-point table in tau (and in the particle position): where the closed form is strongly curved
    # (just behind the front for gamma close to 1: rho ~ 1 / (gamma - 1 + tau)) the table's own error dtau^2 f'' / 8 exceeds the flat tolerance;
    # it is measured on the closed form (second difference over one table step) and allowed with a factor 4
    def state(tau_):
        lam_ = np.where(tau_ < 1, tau_ * (2 - tau_), 1.0)
        gg_ = np.sqrt(np.maximum(1 - lam_, 0.0))
        g_ = P['gamma']
        rhoj_ = P['rho_0'] * (g_ + 1) / g_
        p_ = pj * (1 + gg_)
        r_ = rhoj_ * g_ / (g_ - gg_)
        return dict(pressure=p_, density=r_, velocity=(1 - P['rho_0'] / r_) * P['D'], sound_speed=np.sqrt(g_ * p_ / r_), reaction_progress=lam_)
    tk = np.clip(tau[keep], dt, None)
    s0, sm, sp_ = state(tk), state(tk - dt), state(tk + dt)
    for k in ('pressure', 'density', 'velocity', 'sound_speed', 'reaction_progress'):
        curv = 0.5 * np.abs(sp_[k] - 2 * s0[k] + sm[k])
        o.close('SDRZ %s == documented closed form' % k, _arr(sol, k)[keep], ref[k][keep], 0.0, atol=5e-4 * sc[k] + curv, regime='t>1' if t > 1 else 't<=1')
    o.nontrivial = True
    return o


@st.composite
def ig_gen_case(draw):
    return draw(cat.riemann_case(solver='gen', n_min=6, n_max=14))


OBLIGATIONS = [
    Obligation('igeos-vs-geneos', ig_gen_case(), check_ig_vs_gen, quick=32, thorough=600, min_per_shard=1, expected_exc=(ValueError,)),
    Obligation('noh-cog19-bbnoh', noh_triple(), check_noh_triple, quick=300, thorough=10000),
    Obligation('noh2-noh2cog-cog1', noh2_triple(), check_noh2_triple, quick=300, thorough=10000),
    Obligation('wrapper-vs-general', wrapper_case(), check_wrapper, quick=800, thorough=30000),
    Obligation('sedov-wrapper-vs-general', sedov_wrapper_case(), check_sedov_wrapper, quick=16, thorough=200, min_per_shard=1),
    Obligation('sandwich-vs-rod', sandwich_case(), check_sandwich, quick=200, thorough=5000),
    Obligation('rod-bc3-vs-mirrored-bc4', bc34_case(), check_bc34, quick=200, thorough=5000),
    Obligation('kenamond-2d-vs-3d', ken23_case(), check_ken23, quick=400, thorough=20000),
    Obligation('sdrz-vs-doc', sdrz_case(), check_sdrz, quick=300, thorough=10000),
]
OBLIGATIONS[0].cost = OBLIGATIONS[4].cost = 50.0
