"""C19 - 2-D steady supersonic Riemann problem: oblique-shock / Prandtl-Meyer relations, balanced slip line."""
import math
import numpy as np
from hypothesis import strategies as st, assume

from ..fuzz import fuzzed
from ..core import Obligation, Out
from .. import cat
from ..strat import uni, logu

META = dict(
    technique='Hypothesis-generated supersonic top/bottom states (all four morphologies, unequal gammas, non-zero flow angles); independent oblique-shock and '
              'Prandtl-Meyer relations recomputed from the upstream state and the returned downstream state / wave angles; coverage-guided supplement: the same strategy and oracle driven by atheris/libFuzzer through Hypothesis fuzz_one_input (obligations *-atheris)',
    rule='cases = (top and bottom state: pressure, density, Mach in [1.5,4], flow angle in +-12 deg, gamma, points by polar angle in every region, x > 0); '
         'oracle = equal pressure and flow direction across the slip line; for each shock: density and Mach ratios and the turning angle from theta-beta-M with the '
         'normal Mach number implied by the returned pressure ratio, and the shock lying where the returned fields change; for each fan: constant entropy and '
         'total enthalpy, turning = nu(M2) - nu(M1) with the true Prandtl-Meyer function, interior states on the isentrope and on the characteristic through the '
         'origin; u, v, speed, Mach, sound speed, sie mutually consistent; non-trivial = unequal gammas or non-zero flow angles; distinct = case hash',
    assumptions=['the property is evaluated on returned fields at points placed strictly inside each region (polar angle), wave angles from the public attribute angles',
                 'states for which the solver finds no shock/fan intersection (exception) are counted as rejected'])

S2D = 'exactpack.solvers.riemann2D_2section_steadystate.ep_riemann2D_2section_steadystate.IGEOS_Solver'
NAMES = ('pressure', 'density', 'specific_internal_energy', 'Mach', 'x_velocity', 'y_velocity', 'speed')


def nu_pm(M, g):
    mu = math.sqrt((g + 1) / (g - 1))
    b = math.sqrt(M * M - 1)
    return mu * math.atan(b / mu) - math.atan(b)


@st.composite
def s2d_case(draw):
    def state(p_default):
        return [draw(st.one_of(st.just(p_default), logu(0.2, 5.0))), draw(logu(0.3, 3.0)), draw(uni(1.5, 4.0)),
                draw(st.one_of(st.just(0.0), uni(-12.0, 12.0))), draw(st.sampled_from([1.4, 5.0 / 3.0, 1.2, 1.3]))]
    bottom, top = state(1.0), state(0.25)
    if draw(st.booleans()):
        top[4] = bottom[4]
    fr = draw(st.lists(uni(0.05, 0.95), min_size=3, max_size=3))
    return dict(solver=S2D, params=dict(bottom_state=bottom, top_state=top), fr=fr, rad=draw(logu(0.1, 10.0)))


def _eval(s, angs, rad):
    pts = [(rad * math.cos(a), rad * math.sin(a)) for a in angs]
    sol = cat.quiet(s, pts, 0.0)
    return {k: np.asarray(sol[k], float) for k in NAMES}


def check_2d(case):
    o = Out()
    P = case['params']
    s = cat.make_solver(case)
    B, T = P['bottom_state'], P['top_state']
    # first call fixes the public attributes
    first = _eval(s, [0.0], case['rad'])
    ang = s.angles
    morph = str(s.morphology)
    o.label(morph, 'gB!=gT' if B[4] != T[4] else 'gB==gT', 'angled' if (B[3] != 0 or T[3] != 0) else 'aligned')
    cd = float(ang['CD'])
    thB, thT = math.radians(B[3]), math.radians(T[3])
    f1, f2, f3 = case['fr']
    lo_edge = -0.45 * math.pi
    hi_edge = 0.45 * math.pi
    # region boundaries (polar angles, increasing): bottom | (fan) | bottom* | CD | top* | (fan) | top
    if morph[0] == 'S':
        b_waves = [float(ang['BS'])]
    else:
        b_waves = [float(ang['BR'][0]), float(ang['BR'][1])]
    if morph[4] == 'S':
        t_waves = [float(ang['TS'])]
    else:
        t_waves = [float(ang['TR'][0]), float(ang['TR'][1])]
    order = [lo_edge] + b_waves + [cd] + t_waves + [hi_edge]
    # did the root find converge?  Evaluate the solver's own pressure-deflection functions (public class
    # SetupRiemannProblem) at the reported star pressure: both sides must give the slip-line angle
    prob = cat.quiet(cat.cls_of('exactpack.solvers.riemann2D_2section_steadystate.riemann2D_2section_steadystate.SetupRiemannProblem'),
                     bottom_state=list(B), top_state=list(T))
    ps = float(s.pressure_solution)
    fB = (prob.compression_states if morph[0] == 'S' else prob.expansion_states)(ps, list(B))[0]
    fT = (prob.compression_states if morph[4] == 'S' else prob.expansion_states)(ps, list(T))[0]
    phiB, phiT = math.radians(B[3]) - float(fB), math.radians(T[3]) + float(fT)
    if not (abs(phiB - phiT) <= 1e-7 and abs(phiT - cd) <= 1e-7):
        # two different things can be behind this: the solver's own objective (public determine_state_functions) is not zero at the reported
        # p* (fsolve did not converge and nobody looked), or it is zero and the objective itself is not Phi = flow angle -/+ deflection
        own = None
        try:
            tf, bf = cat.quiet(prob.determine_state_functions, ps)
            if str(prob.morphology) == morph:
                own = float(tf(ps) - bf(ps))
        except Exception:  # noqa
            own = None
        if own is not None and abs(own) <= 1e-9:
            o.fail('the balanced pressure-deflection functions are (flow angle of the stream) -/+ (deflection through its wave)', morph, phiB=phiB, phiT=phiT, cd=cd, p_star=ps,
                   own_objective=own)
        else:
            o.fail('star pressure solves Phi_T(p*) = Phi_B(p*) = slip-line angle (root find converged)', morph, phiB=phiB, phiT=phiT, cd=cd, p_star=ps, own_objective=own)
        return o
    o.checks += 1
    # each wave must be of the kind the morphology names (judged by the converged star pressure)
    bad_kind = False
    for side, kindc, p_i in (('bottom', morph[0], B[0]), ('top', morph[4], T[0])):
        if kindc == 'S' and ps / p_i < 1 - 1e-9:
            o.fail('shock is compressive', morph + ' ' + side + ' shock', pr=ps / p_i)
            bad_kind = True
        if kindc == 'R' and ps / p_i > 1 + 1e-9:
            o.fail('fan is an expansion', morph + ' ' + side + ' fan', pr=ps / p_i)
            bad_kind = True
    if bad_kind:
        return o
    width = min(order[i + 1] - order[i] for i in range(len(order) - 1))
    if 0 <= width < 1e-9 or (abs(ps / B[0] - 1) < 1e-9 and abs(ps / T[0] - 1) < 1e-9):
        o.label('zero-strength-waves-skip')
        return o
    o.true('wave angles ordered: bottom wave(s) < slip line < top wave(s)', all(order[i] < order[i + 1] for i in range(len(order) - 1)), order=order, regime=morph)
    if not all(order[i] < order[i + 1] for i in range(len(order) - 1)):
        return o            # regions overlap: there is no consistent place to sample the star states

    def inside(a, b, f):
        return a + (b - a) * f
    A_bot = inside(order[0], b_waves[0], f1)
    A_bst = inside(b_waves[-1], cd, f2)
    A_tst = inside(cd, t_waves[0], f2)
    A_top = inside(t_waves[-1], order[-1], f1)
    F = _eval(s, [A_bot, A_bst, A_tst, A_top], case['rad'])

    def st_of(i):
        return {k: float(F[k][i]) for k in NAMES}
    bot, bst, tst, top = st_of(0), st_of(1), st_of(2), st_of(3)
    # undisturbed states are the input states
    for nm, stt, inp in (('bottom', bot, B), ('top', top, T)):
        o.close('%s region returns the input state' % nm, [stt['pressure'], stt['density'], stt['Mach']], inp[:3], 1e-12, regime=morph)
        o.close('%s region flow angle' % nm, math.atan2(stt['y_velocity'], stt['x_velocity']), math.radians(inp[3]), 0.0, atol=1e-12, regime=morph)
    # mutual consistency everywhere
    for nm, stt, g in (('bottom', bot, B[4]), ('bottom*', bst, B[4]), ('top*', tst, T[4]), ('top', top, T[4])):
        c = math.sqrt(g * stt['pressure'] / stt['density'])
        o.close('speed = sqrt(u^2+v^2) (%s)' % nm, stt['speed'], math.hypot(stt['x_velocity'], stt['y_velocity']), 1e-12, regime=morph)
        o.close('Mach = speed / sqrt(gamma p/rho) (%s)' % nm, stt['Mach'], stt['speed'] / c, 1e-9, regime=morph)
        o.close('sie = p/(rho (gamma-1)) (%s)' % nm, stt['specific_internal_energy'], stt['pressure'] / stt['density'] / (g - 1), 1e-12, regime=morph)
    # slip line
    o.close('slip line: equal pressure', bst['pressure'], tst['pressure'], 1e-10, regime=morph)
    aB = math.atan2(bst['y_velocity'], bst['x_velocity'])
    aT = math.atan2(tst['y_velocity'], tst['x_velocity'])
    o.close('slip line: equal flow direction', aB, aT, 0.0, atol=1e-9, regime=morph)
    o.close('slip line lies along the common flow direction', cd, aB, 0.0, atol=1e-9, regime=morph)
    # waves
    for side, up, dn, inp, th_up, waves, sgn in (('bottom', bot, bst, B, thB, b_waves, +1.0), ('top', top, tst, T, thT, t_waves, -1.0)):
        g, M1 = inp[4], inp[2]
        pr = dn['pressure'] / up['pressure']
        turn = math.atan2(dn['y_velocity'], dn['x_velocity']) - th_up        # + = counter-clockwise
        if len(waves) == 1:
            reg = morph + ' ' + side + ' shock'
            o.true('shock is compressive', pr > 1 - 1e-12, regime=reg, pr=pr)
            Mn1sq = 1 + (g + 1) / (2 * g) * (pr - 1)
            if Mn1sq < 1 or Mn1sq > M1 * M1:
                o.fail('shock pressure ratio admissible for the upstream Mach number', reg, pr=pr, M1=M1)
                continue
            beta = math.asin(math.sqrt(Mn1sq) / M1)
            theta = math.atan(2 / math.tan(beta) * (M1 * M1 * math.sin(beta) ** 2 - 1) / (M1 * M1 * (g + math.cos(2 * beta)) + 2))
            o.close('oblique shock: density ratio', dn['density'] / up['density'], (g + 1) * Mn1sq / ((g - 1) * Mn1sq + 2), 1e-8, regime=reg)
            Mn2sq = ((g - 1) * Mn1sq + 2) / (2 * g * Mn1sq - (g - 1))
            o.close('oblique shock: downstream Mach number', dn['Mach'], math.sqrt(Mn2sq) / math.sin(beta - theta), 1e-8, regime=reg)
            o.close('oblique shock: turning angle from theta-beta-M', abs(turn), theta, 0.0, atol=1e-8, regime=reg)
            # the shock must be where the returned fields change: polar angle = upstream direction -+ beta
            o.close('oblique shock: wave angle = upstream direction -/+ beta', waves[0], th_up - sgn * beta, 0.0, atol=1e-7, regime=reg)
            o.close('total enthalpy conserved across the shock', g / (g - 1) * dn['pressure'] / dn['density'] + 0.5 * dn['speed'] ** 2,
                    g / (g - 1) * up['pressure'] / up['density'] + 0.5 * up['speed'] ** 2, 1e-8, regime=reg)
        else:
            reg = morph + ' ' + side + ' fan'
            o.true('fan is an expansion', pr < 1 + 1e-12, regime=reg, pr=pr)
            o.close('fan: isentropic p/rho^gamma', dn['pressure'] / dn['density'] ** g, up['pressure'] / up['density'] ** g, 1e-9, regime=reg)
            o.close('fan: total enthalpy constant', g / (g - 1) * dn['pressure'] / dn['density'] + 0.5 * dn['speed'] ** 2,
                    g / (g - 1) * up['pressure'] / up['density'] + 0.5 * up['speed'] ** 2, 1e-9, regime=reg)
            o.close('fan: turning = nu(M2) - nu(M1) (Prandtl-Meyer)', abs(turn), nu_pm(dn['Mach'], g) - nu_pm(M1, g), 0.0, atol=1e-7, regime=reg)
            # head and tail are Mach lines of the end states
            head, tail = (waves[0], waves[1]) if side == 'bottom' else (waves[1], waves[0])
            o.close('fan head is the Mach line of the upstream state', head, th_up - sgn * math.asin(1 / M1), 0.0, atol=1e-9, regime=reg)
            a_dn = math.atan2(dn['y_velocity'], dn['x_velocity'])
            o.close('fan tail is the Mach line of the downstream state', tail, a_dn - sgn * math.asin(1 / dn['Mach']), 0.0, atol=1e-7, regime=reg)
            # interior point
            a_in = inside(waves[0], waves[1], f3)
            Fi = _eval(s, [a_in], case['rad'])
            fi = {k: float(Fi[k][0]) for k in NAMES}
            o.close('fan interior: on the same isentrope', fi['pressure'] / fi['density'] ** g, up['pressure'] / up['density'] ** g, 1e-8, regime=reg)
            o.close('fan interior: total enthalpy', g / (g - 1) * fi['pressure'] / fi['density'] + 0.5 * fi['speed'] ** 2,
                    g / (g - 1) * up['pressure'] / up['density'] + 0.5 * up['speed'] ** 2, 1e-8, regime=reg)
            a_fl = math.atan2(fi['y_velocity'], fi['x_velocity'])
            o.close('fan interior: point lies on the Mach line through the origin', a_in, a_fl - sgn * math.asin(1 / fi['Mach']), 0.0, atol=1e-6, regime=reg)
            o.close('fan interior: turning so far = nu(M) - nu(M1)', abs(a_fl - th_up), nu_pm(fi['Mach'], g) - nu_pm(M1, g), 0.0, atol=1e-6, regime=reg)
            o.close('fan interior: Mach consistent with speed and sound speed', fi['Mach'], fi['speed'] / math.sqrt(g * fi['pressure'] / fi['density']), 1e-8, regime=reg)
            # a centred simple wave is continuous and monotone: inside the fan pressure, Mach number and flow direction lie between their
            # values in the two end states, and tend to them at the head and at the tail
            lo_, hi_ = sorted((th_up, a_dn))
            o.true('interior of the fan: flow direction between the upstream and downstream directions', lo_ - 1e-9 <= a_fl <= hi_ + 1e-9, regime=reg, a=a_fl, up=th_up, dn=a_dn, M1=M1)
            o.true('interior of the fan: pressure between the end-state pressures', dn['pressure'] * (1 - 1e-9) <= fi['pressure'] <= up['pressure'] * (1 + 1e-9), regime=reg, M1=M1)
            eps_ = 1e-6
            Fe = _eval(s, [inside(head, tail, eps_), inside(head, tail, 1 - eps_)], case['rad'])
            for i_, (nm_, end_, a_end) in enumerate((('head', up, th_up), ('tail', dn, a_dn))):
                o.close('interior of the fan tends to the %s state: pressure' % nm_, float(Fe['pressure'][i_]), end_['pressure'], 1e-4, regime=reg, M1=M1)
                o.close('interior of the fan tends to the %s state: flow direction' % nm_, math.atan2(float(Fe['y_velocity'][i_]), float(Fe['x_velocity'][i_])), a_end, 0.0,
                        atol=1e-4, regime=reg, M1=M1)
    o.nontrivial = B[4] != T[4] or B[3] != 0 or T[3] != 0
    return o


OBLIGATIONS = [
    Obligation('steady-2d-riemann', s2d_case(), check_2d, quick=400, thorough=15000, expected_exc=(ValueError, UnboundLocalError, IndexError)),
]
# coverage-guided supplement (atheris / libFuzzer over the same strategy and oracle; see vp/fuzz.py)
OBLIGATIONS.append(fuzzed([o for o in OBLIGATIONS if o.name == 'steady-2d-riemann'][0], quick=0, thorough=60000, modules=('exactpack.solvers.riemann',)))
