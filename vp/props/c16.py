"""C16 - EOS library closures, partial derivatives, residual Jacobians and the Newton result are self-consistent."""
import math
import numpy as np
from hypothesis import strategies as st, assume

from ..fuzz import fuzzed
from ..core import Obligation, Out
from .. import cat
from ..strat import uni, logu, pos

META = dict(
    technique='Hypothesis-generated EOS constants and states; round-trip of the closures, analytic partials vs centred finite differences (two step sizes), '
              'Jacobian vs finite differences of the residual, inverse Jacobian times Jacobian, jump conditions of the converged Newton state; coverage-guided supplement: the same strategy and oracle driven by atheris/libFuzzer through Hypothesis fuzz_one_input (obligations *-atheris)',
    rule='cases = (EOS class, admissible constants, state in the domain of validity incl. expansion and compression for Steinberg) and (residual class, '
         'initial conditions with P0>0 when symmetry=0, EOS, evaluation state); oracle = P(rho,e(rho,P))=P, each partial = FD of the closure, F_prime = FD of F '
         'column by column (buffers copied), F_prime_inv F_prime = I, converged solve_jump_conditions() satisfies the three Noh jump conditions with D>0; '
         'non-trivial = non-ideal EOS or P0>0; distinct = case hash',
    assumptions=['Newton obligation: a physically reasonable starting guess = the ideal-gas Noh state perturbed by up to 15 %, for EOS parameters for which that state is close to the physical root (co-volume b rho_ideal <= 0.25, stiffness c_s <= 0.3 |u0|)', 'finite differences with relative steps 1e-5 and 5e-6; a violation needs both to disagree with the analytic value by > 1e-6 relative',
                 'partials are called with the argument order the residual classes use: (rho, P) for e-derivatives, (rho, e) for P-derivatives'])

RES = 'exactpack.solvers.nohblackboxeos.solution_tools.residual_functions.'


@st.composite
def eos_and_state(draw):
    kind = draw(st.sampled_from(['ideal_gas_eos', 'stiffened_gas_eos', 'noble_abel_eos', 'carnahan_starling_eos', 'steinberg', 'aluminum_eos']))
    g = draw(st.one_of(st.sampled_from([5.0 / 3.0, 1.4, 3.0]), uni(1.1, 3.0)))
    rho = draw(logu(0.05, 20.0))
    e = draw(logu(0.01, 50.0))
    regime = ''
    if kind == 'ideal_gas_eos':
        spec = dict(cls=kind, args=dict(gamma=g))
    elif kind == 'stiffened_gas_eos':
        spec = dict(cls=kind, args=dict(gamma=g, c_s=draw(logu(0.05, 3.0)), rho_inf=draw(logu(0.1, 5.0))))
    elif kind == 'noble_abel_eos':
        spec = dict(cls=kind, args=dict(gamma=g, b=draw(uni(0.01, 0.9)) / rho))
    elif kind == 'carnahan_starling_eos':
        spec = dict(cls=kind, args=dict(gamma=g, b=draw(uni(0.01, 0.6)) / rho))
    else:
        if kind == 'aluminum_eos':
            spec = dict(cls=kind, args={})
            rho_ref, c0 = 2.703, 0.524e6
        else:
            rho_ref, c0 = draw(logu(0.5, 10.0)), draw(logu(0.1, 10.0))
            spec = dict(cls=kind, args=dict(reference_density=rho_ref, reference_pressure=draw(st.one_of(st.just(0.0), uni(0.0, 1.0))) * rho_ref * c0 ** 2 * 0.01,
                                            reference_gruneisen=draw(uni(1.0, 2.5)), b=draw(uni(0.2, 1.0)), c_0=c0,
                                            s_1=draw(uni(1.0, 1.6)), s_2=draw(uni(0.0, 0.3)), s_3=draw(uni(0.0, 0.2))))
        comp = draw(st.booleans())
        eta = draw(uni(0.01, 0.35)) if comp else -draw(uni(0.01, 0.5))
        rho = rho_ref / (1 - eta)
        e = draw(logu(1e-3, 1.0)) * c0 ** 2
        regime = 'compression' if comp else 'expansion'
    return dict(solver='eos:' + kind, eos=spec, rho=rho, e=e, regime=regime)


def _fd(f, x, rel):
    h = rel * abs(x)
    return (f(x + h) - f(x - h)) / (2 * h)


def deriv_check(o, name, analytic, f, x, regime, scale=None):
    d1, d2 = _fd(f, x, 1e-5), _fd(f, x, 5e-6)
    sc = max(abs(d1), abs(d2), abs(analytic)) if scale is None else scale
    err = min(abs(analytic - d1), abs(analytic - d2))
    # rounding error of the central difference itself: ~ eps |f(x)| / h (matters where the closure is a small difference of large terms,
    # e.g. a stiffened gas with rho_inf c_s^2 >> rho e; found by the thorough atheris campaign)
    fd_noise = 8 * 2.3e-16 * abs(f(x)) / (5e-6 * abs(x))
    o.close(name, err, 0.0, 0.0, atol=1e-6 * sc + fd_noise + 1e-300, regime=regime, analytic=float(analytic), fd=float(d2))


def check_eos(case):
    o = Out()
    eos = cat.make_eos(case['eos'])
    rho, e = case['rho'], case['e']
    reg = case['regime']
    o.label(case['eos']['cls'], reg)
    P = eos.P(rho, e)
    o.true('pressure finite', math.isfinite(P))
    o.close('e(rho, P(rho,e)) = e', eos.e(rho, P), e, 1e-10, regime=reg)
    o.close('P(rho, e(rho,P)) = P', eos.P(rho, eos.e(rho, P)), P, 1e-10, regime=reg, scale=abs(P) + rho * e)
    deriv_check(o, 'dP_drho = d/drho P(rho,e)', eos.dP_drho(rho, e), lambda r: eos.P(r, e), rho, reg, scale=(abs(P) + rho * e) / rho)
    deriv_check(o, 'dP_de = d/de P(rho,e)', eos.dP_de(rho, e), lambda x: eos.P(rho, x), e, reg)
    deriv_check(o, 'de_drho = d/drho e(rho,P)', eos.de_drho(rho, P), lambda r: eos.e(r, P), rho, reg, scale=(abs(e) + abs(P) / rho) / rho)
    if P != 0:
        deriv_check(o, 'de_dP = d/dP e(rho,P)', eos.de_dP(rho, P), lambda x: eos.e(rho, x), P, reg)
    o.nontrivial = case['eos']['cls'] != 'ideal_gas_eos'
    return o


# ------------------------------------------------------------------ residual classes
@st.composite
def residual_case(draw):
    cls = draw(st.sampled_from(['energy_noh_residual', 'simplified_energy_noh_residual', 'pressure_noh_residual', 'simplified_pressure_noh_residual']))
    spec = draw(cat.eos_spec())
    g = spec['args']['gamma']
    simplified = cls.startswith('simplified')
    sym = 0 if simplified else draw(st.sampled_from([0, 1, 2]))      # the simplified residuals are documented for symmetry 0 only
    rho0, u0 = draw(pos(1.0)), -draw(pos(1.0))
    P0 = 0.0
    if sym == 0 and not simplified and draw(st.booleans()):
        P0 = draw(logu(0.01, 2.0)) * rho0 * u0 ** 2
    if spec['cls'] in ('noble_abel_eos', 'carnahan_starling_eos'):
        spec['args']['b'] = draw(uni(0.01, 0.3)) / (rho0 * ((g + 1) / (g - 1)) ** (sym + 1))
    ic = dict(density=rho0, velocity=u0, pressure=P0, symmetry=sym)
    # evaluation state around the ideal-gas shocked state
    rho = rho0 * ((g + 1) / (g - 1)) ** (sym + 1) * draw(uni(0.5, 1.5))
    e = 0.5 * u0 ** 2 * draw(uni(0.5, 2.0)) + P0 / rho0
    D = 0.5 * (g - 1) * abs(u0) * draw(uni(0.5, 2.0))
    return dict(solver='residual:' + cls, cls=cls, eos=spec, ic=ic, rho=rho, e=e, D=D)


def check_residual(case):
    o = Out()
    eos = cat.make_eos(case['eos'])
    R = cat.cls_of(RES + case['cls'])(dict(case['ic']), eos)
    cls = case['cls']
    rho, e, D = case['rho'], case['e'], case['D']
    second = eos.P(rho, e) if 'energy' in cls else e            # energy-form residuals iterate on (rho, P[, D])
    x0 = np.array([rho, second] + ([] if cls.startswith('simplified') else [D]), float)
    n = len(x0)
    o.label(cls, case['eos']['cls'], 'P0>0' if case['ic']['pressure'] > 0 else 'P0=0', 'sym%d' % case['ic']['symmetry'])
    J = np.array(R.F_prime(list(x0)), float).copy()
    F0 = np.array(R.F(list(x0)), float).copy()
    Fscale = np.abs(F0) + np.array([rho, abs(eos.P(rho, e)) + rho * abs(case['ic']['velocity']) * D, e][:n] if n == 3 else
                                   [abs(eos.P(rho, e)) + case['ic']['density'] * case['ic']['velocity'] ** 2, e])
    for j in range(n):
        cols = []
        for rel in (1e-5, 5e-6):
            h = rel * abs(x0[j])
            xp, xm = x0.copy(), x0.copy()
            xp[j] += h
            xm[j] -= h
            cols.append((np.array(R.F(list(xp)), float).copy() - np.array(R.F(list(xm)), float).copy()) / (2 * h))
        for i in range(n):
            err = min(abs(J[i, j] - cols[0][i]), abs(J[i, j] - cols[1][i]))
            sc = max(abs(J[i, j]), abs(cols[1][i]), Fscale[i] / abs(x0[j]))
            o.close('F_prime[%d,%d] = dF_%d/dx_%d' % (i, j, i, j), err, 0.0, 0.0, atol=2e-6 * sc, regime='P0>0' if case['ic']['pressure'] > 0 else 'P0=0',
                    analytic=float(J[i, j]), fd=float(cols[1][i]))
    Ji = np.array(R.F_prime_inv(list(x0)), float).copy()
    J2 = np.array(R.F_prime(list(x0)), float).copy()
    I = Ji @ J2
    cond = np.linalg.cond(J2)
    o.close('F_prime_inv * F_prime = I', I, np.eye(n), 0.0, atol=1e-9 * max(cond, 1.0))
    o.nontrivial = case['ic']['pressure'] > 0 or case['eos']['cls'] != 'ideal_gas_eos'
    return o


# ------------------------------------------------------------------ Newton result
def check_newton(case):
    o = Out()
    s = cat.make_solver(case)
    ic = case['ic']
    rho0, u0, P0, sym = ic['density'], ic['velocity'], ic['pressure'], ic['symmetry']
    o.label(case['eos']['cls'], 'sym%d' % sym)

    def jump_conditions(which):
        rho, e, D, P = float(s.shocked_density), float(s.shocked_energy), float(s.shock_speed), float(s.shocked_pressure)
        o.true(which + 'converged shock speed is positive', D > 0, D=D)
        o.close(which + 'shocked pressure is the EOS pressure of the shocked state', P, s.eos.P(rho, e), 1e-9)
        rho1 = rho0 * (1 - u0 / D) ** sym          # density arriving at the shock (geometric convergence)
        # jump conditions, upstream (rho1, u0, P0, e0), downstream (rho, 0, P, e), shock speed D
        m = rho1 * (u0 - D)
        o.close(which + 'mass: rho1 (u0 - D) = -rho D', m, -rho * D, 1e-7)
        o.close(which + 'momentum: P - P0 = rho1 (u0 - D) u0', P - P0, m * u0, 1e-7, scale=abs(P) + abs(m * u0))
        e0 = s.eos.e(rho0, P0)
        o.close(which + 'energy: e - e0 = u0^2/2 + P0 u0/(rho1 (u0 - D))', e - e0, 0.5 * u0 ** 2 + P0 * u0 / m, 1e-7, scale=abs(e) + u0 ** 2)
        return rho, e, D
    cat.quiet(s.solve_jump_conditions)
    first = jump_conditions('')
    # the public mutators allow a second solve on the same object (new initial guess): its result must be a solution again
    if case.get('guess') is not None:
        s.set_new_solver_initial_guess([g * 1.03 for g in first])
        cat.quiet(s.solve_jump_conditions)
        second = jump_conditions('second solve on the same object: ')
        o.close('second solve on the same object: same shocked state', second, first, 1e-6)
    # ... and the EOS objects have public setters of their own: after one, the next solve must satisfy the jump conditions of the EOS as it is now
    # (the initial energy e(rho0, P0) of a stiffened gas depends on rho_inf and c_s)
    if case['eos']['cls'] == 'stiffened_gas_eos':
        f = 0.9 + 0.09 * ((first[0] * 1e3) % 1.0)
        s.eos.set_new_reference_density(float(s.eos.rho_inf) * f)
        s.set_new_solver_initial_guess(list(first))
        cat.quiet(s.solve_jump_conditions)
        jump_conditions('after eos.set_new_reference_density: ')
        o.label('eos-mutated-after-construction')
    o.nontrivial = case['eos']['cls'] != 'ideal_gas_eos' or abs(case['gamma'] - 5 / 3) > 1e-9
    return o


OBLIGATIONS = [
    Obligation('eos-closures-and-partials', eos_and_state(), check_eos, quick=1500, thorough=60000),
    Obligation('residual-jacobians', residual_case(), check_residual, quick=1000, thorough=40000),
    Obligation('newton-jump-conditions', cat.bbnoh_case(n_min=1, n_max=1), check_newton, quick=400, thorough=15000),
]
# coverage-guided supplement (atheris / libFuzzer over the same strategy and oracle; see vp/fuzz.py)
OBLIGATIONS.append(fuzzed([o for o in OBLIGATIONS if o.name == 'eos-closures-and-partials'][0], quick=0, thorough=100000, modules=('exactpack.solvers.nohblackboxeos',)))
OBLIGATIONS.append(fuzzed([o for o in OBLIGATIONS if o.name == 'residual-jacobians'][0], quick=0, thorough=60000, modules=('exactpack.solvers.nohblackboxeos',)))
