"""C13 - burn times are causal first-arrival times of a front moving at speed D."""
import math
import numpy as np
from hypothesis import strategies as st, assume

from ..core import Obligation, Out
from .. import cat
from ..strat import uni, logu, pos
from .c09 import ken3_case as _ken3_case

META = dict(
    technique='Hypothesis-generated detonator layouts / points (incl. detonators, interfaces, shadow boundary, obstacle surface, antipodal axis); '
              'validity predicates (causality, continuity, eikonal, Lipschitz) and an independent shortest-path reference model',
    rule='cases = (layout satisfying the documented ordering conditions with random slack incl. 0, D1 >= D2, 2-D and 3-D, points and displaced points); '
         'oracle = t(x_d) <= t_d (equality when not pre-empted), t >= min t_d, |t(p)-t(p+d)| <= |d|/D_min (continuity), |grad t| D_local = 1 by centred '
         'differences away from kinks (two step sizes must agree), Lipschitz bound for segment-connected pairs in one explosive, DSD dt/dr = 1/(D_CJ - alpha/r); '
         'Kenamond 3 also against an independent tangent-arc-tangent shortest path computed with atan2; non-trivial = non-default layout and a point in '
         'shadow / outer medium / beyond r_2; distinct = case hash',
    assumptions=['eikonal is asserted only where the gradient estimates at h and h/2 agree to 1e-6 (no kink of the min/max inside the stencil)',
                 'arccos conditioning near the antipode/shadow edge allows 6e-8 R/D absolute in Kenamond 3'])


def bt(case, X, params=None):
    c = case if params is None else dict(case, params=params)
    return np.asarray(cat.run(c, x=np.asarray(X, float))['burntime'], float)


def grad_mag(case, X, h):
    """|grad t| at the points X by centred differences with step h (one public call); also the largest
    disagreement between the forward and the backward one-sided difference along any axis (kink indicator)"""
    X = np.asarray(X, float)
    n, d = X.shape
    P = [X]
    for j in range(d):
        e = np.zeros(d)
        e[j] = h
        P += [X + e, X - e]
    T = bt(case, np.vstack(P)).reshape(2 * d + 1, n)
    g = np.zeros(n)
    kink = np.zeros(n)
    for j in range(d):
        g += ((T[1 + 2 * j] - T[2 + 2 * j]) / (2 * h)) ** 2
        kink = np.maximum(kink, np.abs((T[1 + 2 * j] - T[0]) / h - (T[0] - T[2 + 2 * j]) / h))
    return np.sqrt(g), kink


def eikonal(o, case, X, Dloc, L, what):
    g1, k1 = grad_mag(case, X, 1e-4 * L)
    g2, k2 = grad_mag(case, X, 0.5e-4 * L)
    # smooth = no kink of the min/max (or of the two symmetric paths around an obstacle) inside the stencil
    smooth = (np.abs(g1 - g2) <= 1e-6 * np.maximum(g1, g2)) & (k2 * Dloc <= 1e-2) & (k1 * Dloc <= 1e-2)
    o.label('%s eikonal-points %d/%d' % (what, int(smooth.sum()), len(X)))
    if smooth.any():
        o.close('|grad t| * D_local = 1', g2[smooth] * Dloc[smooth], 1.0, 2e-6, regime=what)
    return int(smooth.sum())


# ------------------------------------------------------------------ Kenamond 1
@st.composite
def ken1_case(draw):
    p = draw(cat.ken1_params())
    g = p['geometry']
    pts = [[draw(uni(-8.0, 8.0)) for _ in range(g)] for _ in range(draw(st.integers(2, 8)))]
    return dict(solver=cat.KEN1, params=p, pts=pts, t=0.0)


def check_ken1(case):
    o = Out()
    p = case['params']
    X = np.asarray(case['pts'], float)
    xd = np.asarray(p['x_d'], float)
    T = bt(case, X)
    o.close('burn time at the detonator is the detonation time', bt(case, [xd])[0], p['t_d'], 1e-12, atol=1e-300)
    o.true('never earlier than the detonation time', bool(np.all(T >= p['t_d'])))
    o.close('first-arrival time t_d + |x - x_d|/D', T, p['t_d'] + np.linalg.norm(X - xd, axis=1) / p['D'], 1e-12, scale=np.abs(T) + 1e-30)
    away = np.linalg.norm(X - xd, axis=1) > 1e-2
    if away.any():
        eikonal(o, case, X[away], np.full(int(away.sum()), p['D']), 1.0, 'kenamond1')
    # Lipschitz (whole space is one explosive)
    d = np.linalg.norm(X[:, None, :] - X[None, :, :], axis=2)
    dt = np.abs(T[:, None] - T[None, :])
    o.true('|t(p)-t(q)| <= |p-q|/D', bool(np.all(dt <= d / p['D'] * (1 + 1e-12) + 1e-12 * (1 + np.abs(T).max()))))
    o.label('geom%d' % p['geometry'])
    o.nontrivial = any(v != 0 for v in p['x_d']) or p['D'] != 1.0
    return o


# ------------------------------------------------------------------ Kenamond 2
@st.composite
def ken2_case(draw):
    p = draw(cat.ken2_params())
    g = p['geometry']
    R = p['R']
    ext = max(abs(a) for a in p['dets']) * 1.2
    pts = []
    for _ in range(draw(st.integers(3, 10))):
        kind = draw(st.sampled_from(['any', 'inner', 'interface', 'near-det']))
        d = np.asarray(draw(cat.unit_vec(g)))
        if kind == 'any':
            q = d * draw(uni(0.0, 1.0)) * ext
        elif kind == 'inner':
            q = d * draw(uni(0.0, 1.0)) * R
        elif kind == 'interface':
            q = d * R * (1 + draw(uni(-1e-6, 1e-6)))
        else:
            a = draw(st.sampled_from(p['dets']))
            q = np.zeros(g)
            q[-1] = a
            q = q + d * draw(logu(1e-6, 1.0)) * R
        pts.append(q.tolist())
    dirs = [draw(cat.unit_vec(g)) for _ in pts]
    return dict(solver=cat.KEN2, params=p, pts=pts, dirs=dirs, t=0.0)


def check_ken2(case):
    o = Out()
    p = case['params']
    g = p['geometry']
    R, D1, D2 = p['R'], p['D1'], p['D2']
    X = np.asarray(case['pts'], float)
    T = bt(case, X)
    axis = [p['dets'][0], p['dets'][1], 0.0, p['dets'][2], p['dets'][3]]
    dets = np.zeros((5, g))
    dets[:, -1] = axis
    td = np.asarray(p['t_d'], float)
    Tdet = bt(case, dets)
    o.true('burn time at each detonator is not later than its detonation time', bool(np.all(Tdet <= td + 1e-12 * (1 + np.abs(td)))),
           Tdet=Tdet.tolist(), td=td.tolist())
    # a detonator that no other source reaches earlier fires at its own time
    for i in range(5):
        others = [td[j] + np.linalg.norm(dets[i] - dets[j]) / D1 for j in range(5) if j != i]     # D1 >= D2: fastest conceivable
        if min(others) > td[i]:
            o.close('burn time at a detonator that is not pre-empted equals its detonation time', Tdet[i], td[i], 1e-12, atol=1e-12)
    o.true('never earlier than the earliest detonation', bool(np.all(T >= td.min() - 1e-12 * (1 + abs(td.min())))))
    scale = np.abs(td).max() + 10 * R / D2
    # continuity (also across the interface r = R): displaced points
    h = 1e-7 * R
    Y = X + h * np.asarray(case['dirs'], float)
    o.true('continuity: |t(p) - t(p+d)| <= |d|/D_min', bool(np.all(np.abs(bt(case, Y) - T) <= h / D2 * (1 + 1e-6) + 1e-13 * scale)))
    r = np.linalg.norm(X, axis=1)
    clear = np.abs(r - R) > 1e-3 * R
    for j in range(5):
        clear &= np.linalg.norm(X - dets[j], axis=1) > 1e-3 * R
    if clear.any():
        Dloc = np.where(r[clear] < R, D1, D2)
        eikonal(o, case, X[clear], Dloc, R, 'kenamond2')
    # Lipschitz for pairs whose segment stays in the outer explosive (does not enter the sphere r <= R)
    n = len(X)
    for i in range(n):
        for j in range(i + 1, n):
            a, b = X[i], X[j]
            ab = b - a
            L2 = ab @ ab
            if L2 == 0:
                continue
            s_ = np.clip(-(a @ ab) / L2, 0, 1)
            dmin = np.linalg.norm(a + s_ * ab)
            if dmin > R * (1 + 1e-9):
                o.true('outer explosive: |t(p)-t(q)| <= |p-q|/D2 for segment-connected points',
                       abs(T[i] - T[j]) <= math.sqrt(L2) / D2 * (1 + 1e-9) + 1e-12 * scale, dt=abs(T[i] - T[j]), bound=math.sqrt(L2) / D2)
            elif max(np.linalg.norm(a), np.linalg.norm(b)) < R:
                o.true('inner explosive: |t(p)-t(q)| <= |p-q|/D1 for points inside the inner region',
                       abs(T[i] - T[j]) <= math.sqrt(L2) / D1 * (1 + 1e-9) + 1e-12 * scale, dt=abs(T[i] - T[j]), bound=math.sqrt(L2) / D1)
    o.label('geom%d' % g, 'inner-pts' if np.any(r < R) else 'outer-only', 'D1==D2' if D1 == D2 else 'D1>D2')
    o.nontrivial = bool(np.any(r > R))
    return o


# ------------------------------------------------------------------ Kenamond 3
def geodesic(xd, p, R):
    """independent shortest path length from xd to p around the ball |x| <= R (atan2-based angles)"""
    lod, lop = np.linalg.norm(xd), np.linalg.norm(p)
    d = np.linalg.norm(p - xd)
    if lop < R * (1 - 1e-12):
        return float('nan')
    # does the straight segment enter the ball?
    ab = p - xd
    s_ = np.clip(-(xd @ ab) / (ab @ ab), 0, 1) if ab @ ab > 0 else 0.0
    dmin = np.linalg.norm(xd + s_ * ab)
    if dmin >= R:
        return d
    cross = np.linalg.norm(np.cross(xd, p)) if len(xd) == 3 else abs(xd[0] * p[1] - xd[1] * p[0])
    ang = math.atan2(cross, float(xd @ p))
    psi = math.atan2(math.sqrt(max(lod * lod - R * R, 0.0)), R)
    beta = math.atan2(math.sqrt(max(lop * lop - R * R, 0.0)), R)
    arc = ang - psi - beta
    if arc <= 0:
        return d
    return math.sqrt(max(lod * lod - R * R, 0.0)) + R * arc + math.sqrt(max(lop * lop - R * R, 0.0))


def check_ken3(case):
    o = Out()
    p = case['params']
    g = p['geometry']
    R, D = p['R'], p['D']
    X = np.asarray(case['pts'], float)
    r = np.linalg.norm(X, axis=1)
    X = X[r >= R]
    if len(X) == 0:
        return o
    xd = np.asarray(p['x_d'], float)
    T = bt(case, X)
    acond = 6e-8 * R / D
    scale = abs(p['t_d']) + (np.linalg.norm(xd) + np.max(np.linalg.norm(X, axis=1)) + 4 * R) / D
    o.close('burn time at the detonator is the detonation time', bt(case, [xd])[0], p['t_d'], 1e-12, atol=1e-300)
    ref = np.array([p['t_d'] + geodesic(xd, q, R) / D for q in X])
    o.close('burn time equals t_d + (shortest path around the obstacle)/D', T, ref, 1e-10, atol=acond, scale=scale)
    o.true('never earlier than the straight-line arrival', bool(np.all(T >= p['t_d'] + np.linalg.norm(X - xd, axis=1) / D - 1e-12 * scale)))
    shadow = np.abs(T - (p['t_d'] + np.linalg.norm(X - xd, axis=1) / D)) > 1e-9 * scale
    # continuity incl. across the shadow boundary: displaced points (kept outside the obstacle)
    h = 1e-6 * R
    rng = np.asarray(case['ang'], float)
    dirs = np.array([cat.unit_dir(g, rng[0] + i, rng[1] + 0.3 * i) for i in range(len(X))])
    Y = X + h * dirs
    ry = np.linalg.norm(Y, axis=1)
    Y = np.where((ry < R)[:, None], Y * (R * (1 + 1e-12) / ry)[:, None], Y)
    dY = np.linalg.norm(Y - X, axis=1)
    # sqrt-type conditioning of arccos at the antipode: the bound carries acond
    o.true('continuity: |t(p) - t(p+d)| <= |d|/D', bool(np.all(np.abs(bt(case, Y) - T) <= dY / D * (1 + 1e-6) * (math.pi / 2) + 2 * acond + 1e-13 * scale)))
    rr = np.linalg.norm(X, axis=1)
    clear = (rr > R * (1 + 1e-3)) & (np.linalg.norm(X - xd, axis=1) > 1e-3 * R)
    if clear.any():
        eikonal(o, case, X[clear], np.full(int(clear.sum()), D), R, 'kenamond3')
    o.label('geom%d' % g, 'shadow-pts' if shadow.any() else 'los-only')
    o.nontrivial = bool(shadow.any())
    return o


# ------------------------------------------------------------------ DSD cylindrical expansion
@st.composite
def dsd_case(draw):
    p = draw(cat.dsdcyl_params())
    fr = draw(st.lists(st.one_of(uni(0.0, 1.0), uni(1.0, 2.0), uni(2.0, 6.0)), min_size=3, max_size=10))
    return dict(solver=cat.DSDCYL, params=p, fr=fr, ang=draw(cat.angle), t=0.0)


def check_dsd(case):
    o = Out()
    p = case['params']
    r1, r2 = p['r_1'], p['r_2']
    # radii: [0,1) -> inside r1, [1,2) -> HE1, [2,6) -> HE2
    rad = []
    for f in case['fr']:
        if f < 1:
            rad.append(f * r1)
        elif f < 2:
            rad.append(r1 + (f - 1) * (r2 - r1))
        else:
            rad.append(r2 * (1 + (f - 2)))
    rad = np.array(sorted(rad))
    c, s_ = math.cos(case['ang']), math.sin(case['ang'])

    def tt(rv):
        rv = np.asarray(rv, float)
        return bt(case, np.column_stack([rv * c, rv * s_]))
    T = tt(rad)
    o.close('inside r_1 the burn time is the detonation time', T[rad <= r1 * (1 - 1e-12)], p['t_d'], 1e-12, atol=1e-300)
    o.true('never earlier than the detonation time', bool(np.all(T >= p['t_d'] - 1e-12 * (1 + abs(p['t_d'])))))
    o.true('burn time non-decreasing with radius', bool(np.all(np.diff(T) >= -1e-12 * (1 + np.abs(T).max()))))
    scale = abs(p['t_d']) + (rad.max() + r2) / min(p['D_CJ_1'], p['D_CJ_2'])
    # continuity across r_1 and r_2
    for rb, nm in ((r1, 'r_1'), (r2, 'r_2')):
        a, b = tt([rb * (1 - 1e-9), rb * (1 + 1e-9)])
        o.close('continuous across ' + nm, a, b, 0.0, atol=1e-7 * scale)
    # radial derivative 1/(D_CJ - alpha/r) in each explosive
    for lo, hi, Dc, al, nm in ((r1, r2, p['D_CJ_1'], p['alpha_1'], 'HE1'), (r2, np.inf, p['D_CJ_2'], p['alpha_2'], 'HE2')):
        m = (rad > lo * (1 + 1e-3)) & (rad < hi * (1 - 1e-3))
        if m.any():
            rv = rad[m]
            h = 1e-5 * rv
            d1 = (tt(rv + h) - tt(rv - h)) / (2 * h)
            o.close('dt/dr = 1/(D_CJ - alpha/r) in ' + nm, d1 * (Dc - al / rv), 1.0, 1e-6, regime=nm)
            o.label(nm + '-derivative')
    o.nontrivial = bool(np.any(rad > r2))
    return o


OBLIGATIONS = [
    Obligation('kenamond1-causal', ken1_case(), check_ken1, quick=300, thorough=10000),
    Obligation('kenamond2-causal', ken2_case(), check_ken2, quick=400, thorough=15000),
    Obligation('kenamond3-causal', _ken3_case(), check_ken3, quick=600, thorough=20000),
    Obligation('dsdcyl-causal', dsd_case(), check_dsd, quick=400, thorough=10000),
]
