"""C09 - mirror / Galilean symmetry of the 1-D Riemann solvers; rigid-motion symmetry of burn-time fields."""
import math
import numpy as np
from hypothesis import strategies as st

from ..core import Obligation, Out
from .. import cat, rtools
from ..strat import uni, logu, pos

META = dict(
    technique='Hypothesis metamorphic testing: pairs of public calls related by mirror / boost / rotation / reflection / translation',
    rule='cases = (pattern-balanced Riemann states, boost velocity or mirror centre, points away from waves) and '
         '(burn-time layouts, rotation angles / reflections / translations, points incl. shadow, surface and antipodal points); '
         'oracle = transformed problem evaluated at transformed points equals transformed solution; non-trivial = ul != ur, '
         'boost != 0, rotation angle not a multiple of pi/2; distinct = hash of the full case',
    assumptions=['points closer than 1e-6 of the wave span to a wave position (2.5 internal cells for the general-EOS solver) are '
                 'excluded: on a discontinuity the last-ulp placement decides the side',
                 'star pressure from scipy bisect has absolute tolerance 2e-12, so the relative tolerance is 1e-9 + 2e-11/p*'])

F4 = ('density', 'velocity', 'pressure', 'specific_internal_energy')


def mirror_params(P, c):
    Q = dict(P)
    Q.update(rl=P['rr'], pl=P['pr'], gl=P['gr'], ul=-P['ur'], rr=P['rl'], pr=P['pl'], gr=P['gl'], ur=-P['ul'],
             xd0=2 * c - P['xd0'], xmin=2 * c - P['xmax'], xmax=2 * c - P['xmin'])
    return Q


def boost_params(P, v, t):
    Q = dict(P)
    Q.update(ul=P['ul'] + v, ur=P['ur'] + v, xmin=P['xmin'] - abs(v) * t, xmax=P['xmax'] + abs(v) * t)
    return Q


def _points(case, margin):
    P = case['params']
    waves = P['xd0'] + case['t'] * np.asarray(case['speeds'])
    x = np.asarray(case['x'], float)
    keep = np.all(np.abs(x[:, None] - waves[None, :]) > margin, axis=1)
    return x[keep]


def compare(o, A, B, sign_u, shift_u, rtol, scales, regime):
    for k in F4:
        a = np.asarray(A[k], float)
        b = np.asarray(B[k], float)
        if k == 'velocity':
            b = sign_u * b - shift_u
        o.close('%s equal under symmetry' % k, a, b, rtol, scale=scales[k], regime=regime)


def _scales(P):
    cl, cr = math.sqrt(P['gl'] * P['pl'] / P['rl']), math.sqrt(P['gr'] * P['pr'] / P['rr'])
    return dict(density=max(P['rl'], P['rr']), pressure=max(P['pl'], P['pr']),
                velocity=max(cl, cr) + abs(P['ul'] - P['ur']),
                specific_internal_energy=max(P['pl'] / P['rl'] / (P['gl'] - 1), P['pr'] / P['rr'] / (P['gr'] - 1)))


@st.composite
def mirror_case(draw, solver):
    c = draw(cat.riemann_case(solver=solver, n_min=4, n_max=12))
    if draw(st.integers(0, 5)) == 0:
        # equal thermodynamic states, opposite velocities: the problem is its own mirror image about the membrane
        P = c['params']
        v = abs(P['ul'] - P['ur']) / 2 * draw(st.sampled_from([1.0, -1.0]))
        if v != 0:
            Q = dict(P, rr=P['rl'], pr=P['pl'], gr=P['gl'], ul=v, ur=-v)
            w = cat.riemann_wave_speeds(Q['pl'], Q['rl'], Q['ul'], Q['gl'], Q['pr'], Q['rr'], Q['ur'], Q['gr'])
            if w is not None and 0.05 * Q['pl'] < w[1] < 8.0 * Q['pl']:
                span = max(abs(s_) for s_ in w[3]) * c['t']
                L = max(span, 1e-3) * 2.0
                c.update(params=dict(Q, xmin=Q['xd0'] - L, xmax=Q['xd0'] + L), pattern=w[0], pstar=w[1], ustar=w[2], speeds=w[3], span=max(span, 1e-3))
                c['x'] = [Q['xd0'] + f * c['span'] for f in (-1.1, -0.7, -0.3, -0.05, 0.05, 0.3, 0.7, 1.1)]
    c['centre'] = draw(st.one_of(st.just(0.0), st.just(c['params']['xd0']), uni(-2.0, 2.0)))
    return c


@st.composite
def boost_case(draw, solver):
    c = draw(cat.riemann_case(solver=solver, n_min=4, n_max=12))
    P = c['params']
    a = math.sqrt(P['gl'] * P['pl'] / P['rl'])
    c['v'] = draw(st.one_of(uni(-3.0, 3.0), st.sampled_from([1.0, -1.0]))) * a
    return c


def _margin(case, s=None):
    if 'num_x_pts' in case['params']:
        P = case['params']
        return 3.0 * (P['xmax'] - P['xmin'] + 2 * abs(case.get('v', 0.0)) * case['t']) * 1.3 / P['num_x_pts']
    return 1e-6 * case['span']


def check_mirror(case):
    o = Out()
    P = case['params']
    x = _points(case, _margin(case))
    o.label(case['pattern'], 'ul!=ur' if P['ul'] != P['ur'] else 'ul==ur', 'gl!=gr' if P['gl'] != P['gr'] else 'gl==gr')
    if x.size == 0:
        o.label('no-points')
        return o
    c = case['centre']
    A = cat.run(case, x=x)
    B = cat.run(dict(case, params=mirror_params(P, c)), x=2 * c - x)
    gen = 'num_x_pts' in P
    rtol = (2e-4 if gen else 1e-9 + 2e-11 / case['pstar'])
    compare(o, A, B, -1.0, 0.0, rtol, _scales(P), case['pattern'])
    o.nontrivial = P['ul'] != P['ur'] or P['gl'] != P['gr']
    return o


def check_boost(case):
    o = Out()
    P = case['params']
    v, t = case['v'], case['t']
    x = _points(case, _margin(case))
    o.label(case['pattern'], 'ul!=ur' if P['ul'] != P['ur'] else 'ul==ur')
    if x.size == 0:
        o.label('no-points')
        return o
    A = cat.run(case, x=x)
    B = cat.run(dict(case, params=boost_params(P, v, t)), x=x + v * t)
    gen = 'num_x_pts' in P
    rtol = (2e-4 if gen else 1e-9 + 2e-11 / case['pstar'])
    sc = _scales(P)
    for k in F4:
        a = np.asarray(A[k], float)
        b = np.asarray(B[k], float) - (v if k == 'velocity' else 0.0)
        o.close('%s equal under boost' % k, a, b, rtol, scale=sc[k] + (abs(v) * 1e-6 if k == 'velocity' else 0), regime=case['pattern'])
    o.nontrivial = v != 0 and (P['ul'] != P['ur'] or P['gl'] != P['gr'])
    return o


# ------------------------------------------------------------------ burn-time fields
@st.composite
def pts_around(draw, dim, scale, n_min=2, n_max=8):
    n = draw(st.integers(n_min, n_max))
    return [[draw(uni(-3.0, 3.0)) * scale for _ in range(dim)] for _ in range(n)]


@st.composite
def ken1_case(draw):
    p = draw(cat.ken1_params())
    g = p['geometry']
    pts = draw(pts_around(g, 5.0))
    if draw(st.booleans()):
        pts.append(list(p['x_d']))
    shift = [draw(uni(-10.0, 10.0)) for _ in range(g)]
    ang = [draw(cat.angle) for _ in range(3)]
    return dict(solver=cat.KEN1, params=p, pts=pts, shift=shift, ang=ang, t=0.0)


def _R(g, ang):
    return cat.rot2(ang[0]) if g == 2 else cat.rot3(*ang)


def check_ken1(case):
    o = Out()
    p = case['params']
    g = p['geometry']
    X = np.asarray(case['pts'], float)
    xd = np.asarray(p['x_d'], float)
    base = np.asarray(cat.run(case, x=X)['burntime'], float)
    scale = abs(p['t_d']) + 20.0 / p['D']
    sh = np.asarray(case['shift'])
    B = cat.run(dict(case, params=dict(p, x_d=(xd + sh).tolist())), x=X + sh)
    o.close('burntime invariant under common translation', np.asarray(B['burntime'], float), base, 1e-12, scale=scale)
    Rm = _R(g, case['ang'])
    B = cat.run(dict(case, params=dict(p, x_d=xd.tolist())), x=(X - xd) @ Rm.T + xd)
    o.close('burntime invariant under rotation about the detonator', np.asarray(B['burntime'], float), base, 1e-12, scale=scale)
    B = cat.run(dict(case, params=dict(p, x_d=(Rm @ xd).tolist())), x=X @ Rm.T)
    o.close('burntime invariant under common rotation', np.asarray(B['burntime'], float), base, 1e-12, scale=scale)
    o.label('geom%d' % g)
    o.nontrivial = abs(math.sin(2 * case['ang'][0])) > 1e-6
    return o


@st.composite
def ken2_case(draw):
    p = draw(cat.ken2_params())
    g = p['geometry']
    ext = max(abs(a) for a in p['dets']) * 1.2
    pts = [[draw(uni(-1.0, 1.0)) * ext for _ in range(g)] for _ in range(draw(st.integers(2, 8)))]
    return dict(solver=cat.KEN2, params=p, pts=pts, ang=draw(cat.angle), t=0.0)


def check_ken2(case):
    o = Out()
    p = case['params']
    g = p['geometry']
    X = np.asarray(case['pts'], float)
    base = np.asarray(cat.run(case, x=X)['burntime'], float)
    scale = max(abs(t) for t in p['t_d']) + 10 * p['R'] / p['D2']
    Y = X.copy()
    Y[:, 0] *= -1
    o.close('burntime invariant under reflection through the axis', np.asarray(cat.run(case, x=Y)['burntime'], float), base, 1e-12, scale=scale)
    if g == 3:
        Rz = np.eye(3)
        Rz[:2, :2] = cat.rot2(case['ang'])
        o.close('burntime invariant under rotation about the axis', np.asarray(cat.run(case, x=X @ Rz.T)['burntime'], float), base, 1e-12, scale=scale)
        Y = X.copy()
        Y[:, 1] *= -1
        o.close('burntime invariant under reflection through the axis', np.asarray(cat.run(case, x=Y)['burntime'], float), base, 1e-12, scale=scale)
    r = np.linalg.norm(X, axis=1)
    o.label('geom%d' % g, 'inner' if np.any(r < p['R']) else 'outer-only')
    o.nontrivial = abs(math.sin(2 * case['ang'])) > 1e-6 or g == 2
    return o


@st.composite
def ken3_case(draw):
    p = draw(cat.ken3_params())
    g = p['geometry']
    R = p['R']
    xd = np.asarray(p['x_d'])
    u = xd / np.linalg.norm(xd)
    pts = []
    for _ in range(draw(st.integers(2, 8))):
        kind = draw(st.sampled_from(['any', 'any', 'antipodal', 'surface', 'shadow-edge']))
        d = np.asarray(draw(cat.unit_vec(g)))
        l = R * (1 + draw(logu(1e-3, 5.0)))
        if kind == 'antipodal':
            q = -u * l
        elif kind == 'surface':
            q = d * R * (1 + 1e-12)
        elif kind == 'shadow-edge':
            # point on the tangent ray from the detonator (theta = 0) displaced slightly
            lod = np.linalg.norm(xd)
            psi = math.acos(R / lod)
            w = d - (d @ u) * u
            if np.linalg.norm(w) < 1e-6:
                w = np.roll(u, 1) - (np.roll(u, 1) @ u) * u
            w = w / np.linalg.norm(w)
            tang = R * (math.cos(psi) * u + math.sin(psi) * w)       # tangent point
            dirn = tang - xd
            q = tang + dirn / np.linalg.norm(dirn) * l * draw(uni(0.1, 2.0)) + w * draw(uni(-1e-6, 1e-6)) * R
            if np.linalg.norm(q) < R:
                q = d * l
        else:
            q = d * l
        pts.append(q.tolist())
    return dict(solver=cat.KEN3, params=p, pts=pts, ang=[draw(cat.angle) for _ in range(3)], t=0.0)


def check_ken3(case):
    o = Out()
    p = case['params']
    g = p['geometry']
    X = np.asarray(case['pts'], float)
    r = np.linalg.norm(X, axis=1)
    X = X[r >= p['R']]
    if len(X) == 0:
        return o
    xd = np.asarray(p['x_d'], float)
    base = np.asarray(cat.run(case, x=X)['burntime'], float)
    scale = abs(p['t_d']) + (np.linalg.norm(xd) + np.max(np.linalg.norm(X, axis=1)) + 4 * p['R']) / p['D']
    o.true('burn times are finite', bool(np.all(np.isfinite(base))))
    Rm = _R(g, case['ang'])
    Xr = X @ Rm.T
    # rotation may push a surface point a last ulp inside the obstacle: re-project
    rr = np.linalg.norm(Xr, axis=1)
    Xr = np.where((rr < p['R'])[:, None], Xr * (p['R'] * (1 + 4e-16) / rr)[:, None], Xr)
    B = cat.run(dict(case, params=dict(p, x_d=(Rm @ xd).tolist())), x=Xr)
    # a rotated point near the shadow boundary / surface moves by ~1e-16 R: times agree to 1e-9 of the time scale
    # arccos is ill-conditioned at the antipode / shadow edge: d(alpha) ~ sqrt(2 eps) -> 6e-8 R/D absolute
    acond = 6e-8 * p['R'] / p['D']
    o.close('burntime invariant under common rotation about the obstacle centre', np.asarray(B['burntime'], float), base, 1e-9, atol=acond, scale=scale)
    M = np.eye(g)
    M[0, 0] = -1.0
    B = cat.run(dict(case, params=dict(p, x_d=(M @ xd).tolist())), x=X @ M.T)
    o.close('burntime invariant under common reflection', np.asarray(B['burntime'], float), base, 1e-9, atol=acond, scale=scale)
    o.label('geom%d' % g)
    o.nontrivial = abs(math.sin(2 * case['ang'][0])) > 1e-6
    return o


@st.composite
def dsd_case(draw):
    p = draw(cat.dsdcyl_params())
    pts = []
    for _ in range(draw(st.integers(2, 8))):
        d = draw(cat.unit_vec(2))
        l = p['r_1'] * draw(st.one_of(uni(0.2, 1.0), logu(1.0, 8.0))) if draw(st.booleans()) else p['r_2'] * draw(logu(0.6, 5.0))
        pts.append([d[0] * l, d[1] * l])
    return dict(solver=cat.DSDCYL, params=p, pts=pts, ang=draw(cat.angle), t=0.0)


def check_dsd(case):
    o = Out()
    p = case['params']
    X = np.asarray(case['pts'], float)
    base = np.asarray(cat.run(case, x=X)['burntime'], float)
    scale = abs(p['t_d']) + np.max(np.abs(base - p['t_d'])) + p['r_2'] / p['D_CJ_2']
    Rm = cat.rot2(case['ang'])
    o.close('burntime invariant under rotation about the axis', np.asarray(cat.run(case, x=X @ Rm.T)['burntime'], float), base, 1e-9, scale=scale)
    Y = X.copy()
    Y[:, 1] *= -1
    o.close('burntime invariant under reflection', np.asarray(cat.run(case, x=Y)['burntime'], float), base, 1e-12, scale=scale)
    o.nontrivial = abs(math.sin(2 * case['ang'])) > 1e-6
    return o


OBLIGATIONS = [
    Obligation('igeos-mirror', mirror_case('ig'), check_mirror, quick=400, thorough=20000),
    Obligation('igeos-galilean', boost_case('ig'), check_boost, quick=400, thorough=20000),
    Obligation('geneos-mirror', mirror_case('gen'), check_mirror, quick=24, thorough=400, min_per_shard=1, expected_exc=(ValueError,)),
    Obligation('geneos-galilean', boost_case('gen'), check_boost, quick=24, thorough=400, min_per_shard=1, expected_exc=(ValueError,)),
    Obligation('kenamond1-rigid', ken1_case(), check_ken1, quick=400, thorough=20000),
    Obligation('kenamond2-axis', ken2_case(), check_ken2, quick=400, thorough=20000),
    Obligation('kenamond3-rigid', ken3_case(), check_ken3, quick=600, thorough=30000),
    Obligation('dsdcyl-rotation', dsd_case(), check_dsd, quick=300, thorough=10000),
]
OBLIGATIONS[2].cost = OBLIGATIONS[3].cost = 50.0
