"""C04 - integral conservation of mass, momentum, energy for the 1-D Riemann solvers."""
import numpy as np
from hypothesis import strategies as st

from ..fuzz import fuzzed
from ..core import Obligation, Out
from .. import cat, rtools
from ..strat import uni, logu

META = dict(
    technique='Hypothesis-generated left/right states (pattern-balanced); quadrature of returned fields vs '
              'initial integral + t*(flux_left - flux_right); coverage-guided supplement: the same strategy and oracle driven by atheris/libFuzzer through Hypothesis fuzz_one_input (obligations *-atheris)',
    rule='cases = pattern-balanced (SCS / SCR / RCS / RCR / ul=ur) left & right ideal-gas states with boosts, unequal gammas, '
         'random membrane position, window and time (waves inside the window); JWL data for the general solver; '
         'oracle = integral conservation over an interval containing all waves, discontinuities located by bisection '
         'on the public call; non-trivial = ul != ur or gl != gr (or JWL); distinct = hash of the full case',
    assumptions=['trapezoid quadrature on two incommensurate grids (2000/2999 cells) with every discontinuous cell split at the '
                 'jump located to 2^-48 of the cell; a violation must show on both grids',
                 'general-EOS solver values are interpolants on its internal grid: fields are read at the internal nodes and the tolerance is the one-cell bound h TV of the trapezoid rule (computed per case) + 3e-4; 1e-4 for the analytic solver'])


def conservation(o, s, case, a, b, tol, regime):
    t = case['t']
    P = case['params']
    errs = []
    for n in (2000, 2999):
        x, F, jumps = rtools.locate_jumps(s, t, a, b, n=n)
        got = rtools.integrate_conserved(x, F, jumps)
        Fa, Fb = F[:, :1], F[:, -1:]
        # the ends must be the undisturbed input states
        if n == 2000:
            o.close('left end is the undisturbed left state', Fa[:3, 0], [P['rl'], P['ul'], P['pl']], 1e-9, atol=1e-12, regime=regime)
            o.close('right end is the undisturbed right state', Fb[:3, 0], [P['rr'], P['ur'], P['pr']], 1e-9, atol=1e-12, regime=regime)
        Ua, Ub = rtools.conserved(Fa)[:, 0], rtools.conserved(Fb)[:, 0]
        fa, fb = rtools.fluxes(Fa)[:, 0], rtools.fluxes(Fb)[:, 0]
        want = Ua * (P['xd0'] - a) + Ub * (b - P['xd0']) + t * (fa - fb)
        ca = np.sqrt(abs(fa[1] - Ua[1] ** 2 / Ua[0]) / Ua[0] + 1e-300)  # ~ sqrt(p/rho)
        cb = np.sqrt(abs(fb[1] - Ub[1] ** 2 / Ub[0]) / Ub[0] + 1e-300)
        scale = np.array([Ua[0] * (P['xd0'] - a) + Ub[0] * (b - P['xd0']),
                          Ua[0] * (abs(Fa[1, 0]) + ca) * (P['xd0'] - a) + Ub[0] * (abs(Fb[1, 0]) + cb) * (b - P['xd0']),
                          abs(Ua[2]) * (P['xd0'] - a) + abs(Ub[2]) * (b - P['xd0'])])
        errs.append((got - want) / scale)
    errs = np.array(errs)
    worst = np.min(np.abs(errs), axis=0)      # must fail on both grids
    for k, name in enumerate(('mass', 'momentum', 'energy')):
        o.close('integral conservation of ' + name, worst[k], 0.0, 0.0, atol=tol, regime=regime,
                err_grid2000=float(errs[0, k]), err_grid2999=float(errs[1, k]))
    o.info['err'] = errs.tolist()
    o.info['njumps'] = len(jumps)


def check_ig(case):
    o = Out()
    P = case['params']
    s = cat.make_solver(case)
    half = case['span'] * case['margin']
    a, b = P['xd0'] - half, P['xd0'] + half
    o.label(case['pattern'], 'ul!=ur' if P['ul'] != P['ur'] else 'ul==ur', 'gl!=gr' if P['gl'] != P['gr'] else 'gl==gr')
    conservation(o, s, case, a, b, 1e-4, case['pattern'])
    o.nontrivial = P['ul'] != P['ur'] or P['gl'] != P['gr']
    return o


@st.composite
def ig_case(draw):
    c = draw(cat.riemann_case(solver='ig', n_min=1, n_max=1))
    c['margin'] = draw(uni(1.03, 1.25))
    return c


@st.composite
def gen_case(draw):
    c = draw(cat.riemann_case(solver='gen', n_min=1, n_max=1))
    c['margin'] = draw(uni(1.03, 1.25))
    return c


def plain_conservation(o, s, case, a, b, tol, regime, n=None):
    """general-EOS solver: every public call repeats the whole construction (ODE tables, ~1 s) and the returned values are
    linear interpolants on its internal grid linspace(xmin, xmax, num_x_pts).  The fields are therefore read AT the internal
    nodes (where the interpolant is the solver's own value, so rho, u, p, e are mutually consistent) and integrated with the
    trapezoid rule; for samples of a function of bounded variation taken once per cell |integral - trapezoid| <= h TV (h TV / 2 at the
    exact nodes), which is the documented one-cell resolution of every shock and contact.  The tolerance is that bound (from the measured total variation
    of each conserved density) plus `tol` for the smooth part (ODE tables of the fans)."""
    t = case['t']
    P = case['params']
    nodes = np.linspace(P['xmin'], P['xmax'], int(P['num_x_pts']))
    x = nodes[(nodes >= a) & (nodes <= b)]
    h = nodes[1] - nodes[0]
    a, b = x[0], x[-1]
    F = rtools.sample(s, x, t)
    got = rtools.integrate_conserved(x, F, [])
    Fa, Fb = F[:, :1], F[:, -1:]
    o.close('left end is the undisturbed left state', Fa[:3, 0], [P['rl'], P['ul'], P['pl']], 1e-9, atol=1e-12, regime=regime)
    o.close('right end is the undisturbed right state', Fb[:3, 0], [P['rr'], P['ur'], P['pr']], 1e-9, atol=1e-12, regime=regime)
    U = rtools.conserved(F)
    Ua, Ub = U[:, 0], U[:, -1]
    fa, fb = rtools.fluxes(Fa)[:, 0], rtools.fluxes(Fb)[:, 0]
    want = Ua * (P['xd0'] - a) + Ub * (b - P['xd0']) + t * (fa - fb)
    ca = np.sqrt(abs(fa[1] - Ua[1] ** 2 / Ua[0]) / Ua[0] + 1e-300)
    cb = np.sqrt(abs(fb[1] - Ub[1] ** 2 / Ub[0]) / Ub[0] + 1e-300)
    scale = np.array([Ua[0] * (P['xd0'] - a) + Ub[0] * (b - P['xd0']),
                      Ua[0] * (abs(Fa[1, 0]) + ca) * (P['xd0'] - a) + Ub[0] * (abs(Fb[1, 0]) + cb) * (b - P['xd0']),
                      abs(Ua[2]) * (P['xd0'] - a) + abs(Ub[2]) * (b - P['xd0'])])
    err = (got - want) / scale
    tv = np.sum(np.abs(np.diff(U, axis=1)), axis=1)
    # (h TV / 2 holds for values sampled exactly at the nodes of the solver's table; the thorough tier showed 1.3 x that bound, converging
    #  first order in num_x_pts, i.e. the public values are not exactly node values: the bound for an arbitrarily placed sample, h TV, is used)
    res = h * tv / scale
    for k, name in enumerate(('mass', 'momentum', 'energy')):
        o.close('integral conservation of ' + name, err[k], 0.0, 0.0, atol=tol + res[k], regime=regime, one_cell_resolution_bound=float(res[k]))
    o.info['err'] = err.tolist()
    o.info['resolution_bound'] = res.tolist()


def check_gen(case):
    o = Out()
    P = case['params']
    s = cat.make_solver(case)
    half = case['span'] * case['margin']
    a, b = P['xd0'] - half, P['xd0'] + half
    o.label(case['pattern'], 'ul!=ur' if P['ul'] != P['ur'] else 'ul==ur', 'gl!=gr' if P['gl'] != P['gr'] else 'gl==gr')
    cat.quiet(s, np.array([P['xd0']]), 0.4 * case['t'])     # the object has been evaluated at an earlier time before (usual use: a sequence of times)
    plain_conservation(o, s, case, a, b, 3e-4, case['pattern'])
    o.nontrivial = P['ul'] != P['ur'] or P['gl'] != P['gr']
    return o


@st.composite
def jwl_case(draw):
    base = dict(draw(st.sampled_from([cat.JWL_SHYUE, cat.JWL_LEE])))
    for k in ('rl', 'pl', 'rr', 'pr'):
        base[k] *= draw(uni(0.85, 1.2))
    p = dict(base, xmin=0.0, xd0=50.0, xmax=100.0, problem='JWL', num_int_pts=2001, num_x_pts=4001)
    return dict(solver=cat.RIEMANN_GEN, params=p, t=draw(uni(4.0, 15.0)), margin=draw(uni(1.05, 1.25)))


def check_jwl(case):
    o = Out()
    P = case['params']
    s = cat.make_solver(case)
    cat.quiet(s, np.array([P['xd0']]), case['t'])
    case['params'] = P = dict(P, rl=P['rl'], rr=P['rr'])
    span = float(np.max(np.abs(s.Vregs))) * case['t']
    half = span * case['margin']
    o.label('JWL-' + str(s.soln_type))
    plain_conservation(o, s, case, P['xd0'] - half, P['xd0'] + half, 3e-4, 'JWL-' + str(s.soln_type))
    o.nontrivial = True
    return o


OBLIGATIONS = [
    Obligation('igeos-conservation', ig_case(), check_ig, quick=320, thorough=6000, min_per_shard=4),
    Obligation('geneos-conservation', gen_case(), check_gen, quick=32, thorough=320, min_per_shard=1, expected_exc=(ValueError,)),
    Obligation('geneos-jwl-conservation', jwl_case(), check_jwl, quick=16, thorough=200, min_per_shard=1),
]
OBLIGATIONS[1].cost = OBLIGATIONS[2].cost = 50.0
# coverage-guided supplement (atheris / libFuzzer over the same strategy and oracle; see vp/fuzz.py)
OBLIGATIONS.append(fuzzed([o for o in OBLIGATIONS if o.name == 'igeos-conservation'][0], quick=0, thorough=8000, modules=('exactpack.solvers.riemann',), min_per_shard=1000))
