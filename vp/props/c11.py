"""C11 - Sedov: energy behind the shock equals eblast, mass is conserved, undisturbed state ahead."""
import math
import numpy as np
from hypothesis import strategies as st, assume

from ..core import Obligation, Out
from .. import cat
from ..strat import uni, logu, pos
from .c02 import fields_of

META = dict(
    technique='Hypothesis-generated (geometry, gamma, omega in all three solution types, rho0, eblast, t); quadrature of the returned fields vs the blast energy and the initial mass',
    rule='cases = geometry 1/2/3 x gamma x omega covering standard, singular (omega constructed from the closed-form omega_singular(geometry,gamma), '
         'exact and within the +-1e-4 band) and vacuum types, rho0, eblast, t log-uniform; oracle = trapezoid quadrature over the 2001 table nodes '
         'inside the shock of (rho u^2/2 + p/(gamma-1)) dV and rho dV with dV = dr, 2 pi r dr, 4 pi r^2 dr vs eblast and rho0 r_s^(k-omega)/(k-omega) dV-factor; '
         'ahead of the shock the exact initial state; non-trivial = omega>0 or geometry<3 or gamma != 1.4; distinct = case hash',
    assumptions=['user points are chosen on the nodes of the solver\'s internal table (linspace(0, max r, 3001)) with node 2000 a relative 1e-9 inside the shock, '
                 'so the quadrature integrates exact nodal values; tolerance 2e-3 (table class)'])

VOL = {1: 1.0, 2: 2 * math.pi, 3: 4 * math.pi}


@st.composite
def sedov_case(draw):
    kind = draw(st.sampled_from(['standard', 'standard', 'vacuum', 'vacuum', 'singular', 'singular-band', 'singular-near']))
    if kind.startswith('singular'):
        geom = draw(st.sampled_from([2, 3]))
        g = draw(st.one_of(st.sampled_from([1.4, 5.0 / 3.0, 2.0, 1.2]), uni(1.1, 3.0)))
        ws = cat.sedov_omega_singular(geom, g)
        assume(0 <= ws < geom - 1e-3)
        omega = ws if kind == 'singular' else ws + draw(uni(-0.6, 0.6)) * 1e-4 * (geom + 2 - ws)
        if kind == 'singular-near':
            # close to, but clearly outside, the band in which the solver switches to the singular closed form (|v2 - v*| <= 1e-4, i.e. ~8e-4 in omega)
            omega = ws + draw(st.sampled_from([-1.0, 1.0])) * draw(logu(2e-3, 0.04))
            assume(0 <= omega < geom - 1e-3)
        rho0, eblast = draw(pos(1.0)), draw(pos(0.851072))
        c = dict(solver=cat.SEDOV, params=dict(geometry=geom, gamma=g, rho0=rho0, omega=omega, eblast=eblast), geometry=geom, gamma=g,
                 omega=omega, kind=kind, rho0=rho0, eblast=eblast)
    else:
        c = draw(cat.sedov_params(types=(kind,)))
    c['t'] = draw(logu(0.05, 10.0))
    return c


def _integrals(s, case, t, r2, nin, nt=3000):
    """trapezoid over the table nodes 0..nin of a grid with nt cells whose node nin sits 1e-9 inside the shock"""
    k, g = case['geometry'], case['gamma']
    far = r2 * (1 - 1e-9) * nt / nin
    node = far / nt
    r = node * np.arange(0, min(nin + 4, nt + 1))
    F = fields_of(s, extra=far)(r, t)
    rho, u, p = F[0].copy(), F[1], F[2]
    ins = slice(0, nin + 1)
    finite = bool(np.all(np.isfinite(rho[ins][1:])) and np.all(np.isfinite(p[ins])) and np.all(np.isfinite(u[ins])))
    ri = r[ins]
    w = VOL[k] * ri ** (k - 1)
    rho_i = rho[ins]
    if not np.isfinite(rho_i[0]):
        rho_i[0] = 0.0
    eden = 0.5 * rho_i * u[ins] ** 2 + p[ins] / (g - 1)
    if k == 1:          # weight does not vanish at the origin: use the node-1 value for a possibly singular origin node
        eden[0], rho_i[0] = eden[1], rho_i[1]
    return np.trapezoid(eden * w, ri), np.trapezoid(rho_i * w, ri), finite, r, F, nin


def check_sedov(case):
    o = Out()
    s = cat.make_solver(case)
    t = case['t']
    k, g, om = case['geometry'], case['gamma'], case['omega']
    cat.quiet(s, np.array([1.0]), 2.3 * t)     # the object has been evaluated at another time before (a solver is normally used for a sequence of times)
    cat.quiet(s, np.array([1.0]), t)
    r2 = float(s.r2)
    typ = str(s.solution_type)
    o.label('geom%d' % k, typ, case['kind'])
    E0, Ma, _, _, _, _ = _integrals(s, case, t, r2, 1500)
    E1, M1, fin, r, F, nin = _integrals(s, case, t, r2, 2000)
    E2, M2, _, _, _, _ = _integrals(s, case, t, r2, 2990)
    o.true('all fields finite behind the shock', fin, regime=typ)
    M0 = VOL[k] * case['rho0'] * r2 ** (k - om) / (k - om)
    tol = 2e-3
    # The density has an integrable singularity at the vacuum boundary (vacuum type) or at the origin (standard type with
    # omega > k/gamma); a trapezoid rule on table values does not converge there.  The oracle only speaks when its own
    # quadrature has converged: the three node sets (1500 / 2000 / 2990 nodes inside the shock) must agree to 0.3 tol.
    if max(E0, E1, E2) - min(E0, E1, E2) <= 0.3 * tol * case['eblast']:
        o.close('energy behind the shock equals eblast', E2, case['eblast'], tol, regime=typ)
        o.label('energy-checked')
    else:
        o.label('energy-quadrature-not-converged-skip')
    if max(Ma, M1, M2) - min(Ma, M1, M2) <= 0.3 * tol * M0:
        o.close('mass behind the shock equals the initial mass inside r_shock', M2, M0, tol, regime=typ)
        o.label('mass-checked')
    else:
        o.label('mass-quadrature-not-converged-skip')
    out = slice(nin + 1, nin + 4)
    o.close('ahead of the shock: rho0 r^-omega', F[0][out], case['rho0'] * r[out] ** (-om), 1e-9, regime=typ)
    o.close('ahead of the shock: u = 0, p = 0', np.concatenate([F[1][out], F[2][out]]), 0.0, 0.0, atol=0.0, regime=typ)
    o.nontrivial = om > 0 or k < 3 or abs(g - 1.4) > 1e-9
    return o


OBLIGATIONS = [
    Obligation('sedov-energy-mass', sedov_case(), check_sedov, quick=64, thorough=2000, min_per_shard=2),
]
OBLIGATIONS[0].cost = 50.0
