"""C10 - self-similar problems return self-similar fields with the documented exponents."""
import math
import numpy as np
from hypothesis import strategies as st, assume

from ..core import Obligation, Out
from .. import cat, cogcat
from ..strat import uni, logu, pos, gamma_gt1, geometry
from .c02 import fields_of, bisect_jump, msect_jump

META = dict(
    technique='Hypothesis metamorphic testing: public calls at (x,t) and at the similarity image (x\',t\')',
    rule='cases = (solver, admissible parameters, similarity coordinates, a pair of times with ratio in [0.1,10]); oracle = fields at the image '
         'point equal the fields at the original point times the documented power of the time ratio (Riemann, Noh, Cog19, EHEP region I, Mader: '
         'functions of x/t; Sedov: powers of t via r_shock ~ t^(2/(k+2-omega)) with the shock located from the fields; Guderley: functions of '
         't_L/r^lambda with lambda measured from the shock trajectory of the fields); non-trivial = time ratio outside [0.5,2]; distinct = case hash',
    assumptions=['points within 1e-6 of a wave (2.5 cells for interpolating solvers) are excluded at both times',
                 'Guderley: Lazarus time t_L = t/0.750024322 - 1 as documented in the solver'])

GAS = ('density', 'velocity', 'pressure', 'specific_internal_energy')


def _tau(draw):
    return draw(st.one_of(logu(0.1, 0.5), logu(2.0, 10.0), logu(0.5, 2.0)))


@st.composite
def riemann_pair(draw, solver):
    c = draw(cat.riemann_case(solver=solver, n_min=4, n_max=12))
    tau = _tau(draw)
    P = c['params']
    L = 1.3 * c['span'] * max(1.0, tau) * (1 + draw(uni(0.0, 1.0)))
    P['xmin'], P['xmax'] = P['xd0'] - L, P['xd0'] + L
    c['tau'] = tau
    return c


def check_riemann(case):
    o = Out()
    P = case['params']
    t, tau = case['t'], case['tau']
    x = np.asarray(case['x'], float)
    waves = P['xd0'] + t * np.asarray(case['speeds'])
    gen = 'num_x_pts' in P
    margin = (3.0 * (P['xmax'] - P['xmin']) * 1.3 / P['num_x_pts'] / min(1.0, tau)) if gen else 1e-6 * case['span']
    keep = np.all(np.abs(x[:, None] - waves[None, :]) > margin, axis=1)
    x = x[keep]
    o.label(case['pattern'], 'tau<0.5' if tau < 0.5 else ('tau>2' if tau > 2 else 'tau~1'))
    if x.size == 0:
        return o
    A = cat.run(case, x=x)
    B = cat.run(case, x=P['xd0'] + (x - P['xd0']) * tau, t=t * tau)
    rtol = 2e-4 if gen else 1e-9 + 2e-11 / case['pstar']
    cl, cr = math.sqrt(P['gl'] * P['pl'] / P['rl']), math.sqrt(P['gr'] * P['pr'] / P['rr'])
    sc = dict(density=max(P['rl'], P['rr']), pressure=max(P['pl'], P['pr']), velocity=max(cl, cr) + abs(P['ul'] - P['ur']) + abs(P['ul']),
              specific_internal_energy=max(P['pl'] / P['rl'] / (P['gl'] - 1), P['pr'] / P['rr'] / (P['gr'] - 1)))
    for k in GAS:
        o.close('%s depends on (x-xd0)/t only' % k, np.asarray(A[k], float), np.asarray(B[k], float), rtol, scale=sc[k], regime=case['pattern'])
    o.nontrivial = not (0.5 <= tau <= 2.0)
    return o


@st.composite
def noh_pair(draw):
    which = draw(st.sampled_from(['noh', 'cog19']))
    g, geom = draw(gamma_gt1()), draw(geometry())
    rho0, u0 = draw(pos(1.0)), -draw(pos(1.0))
    t = draw(logu(0.01, 10.0))
    rs = abs(u0) * t * (g - 1) / 2
    fr = draw(st.lists(logu(0.02, 20.0), min_size=2, max_size=8))
    x = [rs * f for f in fr if abs(f - 1) > 1e-6] or [rs * 0.5]
    if which == 'noh':
        return dict(solver=cat.NOH + 'Noh', params=dict(geometry=geom, gamma=g, rho0=rho0, u0=u0), t=t, x=x, tau=_tau(draw), which=which)
    return dict(solver=cogcat.path(19), params=dict(geometry=geom, gamma=g, rho0=rho0, u0=u0, Gamma=draw(pos(40.0))), t=t, x=x, tau=_tau(draw), which=which)


def check_noh(case):
    o = Out()
    x = np.asarray(case['x'], float)
    tau = case['tau']
    A = cat.run(case, x=x)
    B = cat.run(case, x=x * tau, t=case['t'] * tau)
    o.label(case['which'], 'geom%d' % case['params']['geometry'], 'tau<0.5' if tau < 0.5 else ('tau>2' if tau > 2 else 'tau~1'))
    for k in GAS:
        o.close('%s depends on r/t only' % k, np.asarray(A[k], float), np.asarray(B[k], float), 1e-10, regime=case['which'])
    o.nontrivial = not (0.5 <= tau <= 2.0)
    return o


@st.composite
def ehep_pair(draw):
    p = draw(cat.ehep_params())
    return dict(solver=cat.EHEP, params=p, w=draw(st.lists(uni(0.1, 1.0), min_size=3, max_size=3)), shrink=draw(uni(0.05, 0.95)))


def check_ehep(case):
    from .c03 import ehep_point
    o = Out()
    s = cat.make_solver(case)
    c = np.asarray(s.corners['I'], float)
    cen = c.mean(axis=0)
    x, t = ehep_point(s, 'I', case['w'])
    x, t = cen[0] + 0.9 * (x - cen[0]), cen[1] + 0.9 * (t - cen[1])
    # region I is a triangle with apex at the origin: the image (f x, f t), f<1, stays inside it
    f = case['shrink']
    A = cat.quiet(s, np.array([x]), t)
    B = cat.quiet(s, np.array([x * f]), t * f)
    o.label('regions %s->%s' % (A['region'][0], B['region'][0]))
    if str(A['region'][0]) != 'I' or str(B['region'][0]) != 'I':
        return o
    for k in ('density', 'velocity', 'pressure', 'specific_internal_energy', 'sound_speed'):
        o.close('EHEP region I: %s depends on x/t only' % k, float(A[k][0]), float(B[k][0]), 1e-9)
    o.nontrivial = not (0.5 <= f <= 2.0)
    return o


@st.composite
def mader_pair(draw):
    return dict(solver=cat.MADER, params=draw(cat.mader_params()), t=6.25e-6 * draw(logu(0.2, 5.0)), n=draw(st.integers(20, 400)),
                lo=draw(uni(0.0, 0.3)), hi=draw(uni(0.6, 1.0)), tau=_tau(draw))


def check_mader(case):
    o = Out()
    P = case['params']
    t, tau = case['t'], case['tau']
    L = P['d_cj'] * t
    x = np.linspace(case['lo'] * L, case['hi'] * L, case['n'])
    A = cat.run(case, x=x)
    B = cat.run(case, x=x * tau, t=t * tau)
    o.label('tau<0.5' if tau < 0.5 else ('tau>2' if tau > 2 else 'tau~1'))
    for k in ('velocity', 'pressure', 'sound_speed', 'density'):
        o.close('Mader %s depends on x/t (grid scaled with t)' % k, np.asarray(A[k], float), np.asarray(B[k], float), 1e-9,
                scale=np.max(np.abs(np.asarray(A[k], float))))
    o.nontrivial = not (0.5 <= tau <= 2.0)
    return o


@st.composite
def sedov_pair(draw):
    c = draw(cat.sedov_params(types=('standard', 'standard', 'vacuum', 'singular'), wrappers=False))
    c['t'] = draw(logu(0.2, 3.0))
    c['tau'] = draw(st.one_of(logu(0.2, 0.5), logu(2.0, 5.0)))
    c['fr'] = draw(st.lists(uni(0.5, 0.97), min_size=3, max_size=6))
    return c


def check_sedov(case):
    o = Out()
    s = cat.make_solver(case)
    t, tau = case['t'], case['tau']
    k, om = case['geometry'], case['omega']
    o.label('geom%d' % k, case['kind'], 'tau<0.5' if tau < 0.5 else 'tau>2')
    locs, sols = [], []
    for tt in (t, t * tau):
        cat.quiet(s, np.array([1.0]), tt)
        r2a = float(s.r2)
        far = 1.5 * r2a
        f = fields_of(s, extra=far)
        xl, xr, Fl, Fr = bisect_jump(f, tt, 0.985 * r2a, 1.021 * r2a, iters=24)
        rs = 0.5 * (xl + xr)            # shock as shown by the fields (within one table cell)
        locs.append(rs)
        lo = float(s.rvv) / r2a if case['kind'] == 'vacuum' else 0.0
        fr = np.array([lo + (1 - lo) * v for v in case['fr']])
        sols.append(f(rs * fr, tt))
        if tt == t:
            shifted = f(rs * fr * (1 + 1.0 / 2000.0), tt)      # one table cell further out: position sensitivity
    a = 2.0 / (k + 2.0 - om)
    cell = 1.5 / 3000.0
    o.close('r_shock ~ t^(2/(k+2-omega))', locs[1] / locs[0], tau ** a, 2.5 * cell, regime=case['kind'])
    A, B = sols
    # density is negligible (disclaimed) at small radius for the standard case: compare where rho > 3e-3 rho2
    keep = A[0] > 3e-3 * np.max(A[0])
    ratio_r = tau ** a
    tol = 4e-3
    # the shock is located to one table cell at each time, so r/r_shock of the image points is uncertain by ~1 cell:
    # allow the change of each field over 2.5 cells in addition to the table tolerance
    sens = 2.5 * np.abs(shifted - A)
    fd, fu, fp = ratio_r ** (-om), ratio_r / tau, ratio_r ** (-om) * (ratio_r / tau) ** 2
    o.close('density ~ r_shock^-omega', B[0][keep], A[0][keep] * fd, tol, atol=sens[0][keep] * fd, scale=np.max(A[0]) * fd, regime=case['kind'])
    o.close('velocity ~ r_shock/t', B[1][keep], A[1][keep] * fu, tol, atol=sens[1][keep] * fu, scale=np.max(np.abs(A[1])) * fu, regime=case['kind'])
    o.close('pressure ~ rho (r_shock/t)^2', B[2][keep], A[2][keep] * fp, tol, atol=sens[2][keep] * fp, scale=np.max(A[2]) * fp, regime=case['kind'])
    o.nontrivial = True
    return o


FACTOR_C = 0.750024322


@st.composite
def guderley_pair(draw):
    return dict(solver=cat.GUDERLEY, params=draw(cat.guderley_params()), t1=draw(uni(0.15, 0.45)), t2=draw(uni(0.5, 0.68)),
                xi=draw(st.lists(uni(-0.95, -0.1), min_size=2, max_size=4)), xip=draw(st.lists(uni(0.05, 3.0), min_size=2, max_size=4)))


def check_guderley(case):
    o = Out()
    P = case['params']
    # the other geometry with the same gamma has been solved in this process before (its similarity exponent is a different one)
    cat.quiet(cat.make_solver(dict(case, params=dict(P, geometry=5 - P['geometry']))), np.array([0.5]), 0.4)
    s = cat.make_solver(case)
    f = fields_of(s)
    t1, t2 = case['t1'], case['t2']
    tl1, tl2 = t1 / FACTOR_C - 1, t2 / FACTOR_C - 1
    # similarity exponent from the shock trajectory shown by the fields: r_s = (-t_L)^(1/lambda)
    rs = []
    for tt in (t1, t2):
        r_all = np.linspace(0.02, 1.2, 60)
        rho = f(r_all, tt)[0]
        j = int(np.argmax(np.abs(np.diff(rho))))
        a, b, Fl, Fr = msect_jump(f, tt, r_all[j], r_all[j + 1], rounds=6)
        rs.append(0.5 * (a + b))
    alpha = math.log(rs[1] / rs[0]) / math.log(tl2 / tl1)
    lam = 1.0 / alpha
    o.close('converging shock at r_s = (-t_L)^(1/lambda)', rs[0], (-tl1) ** alpha, 1e-6)
    # ... and lambda is the documented eigenvalue for this gamma and geometry (public eexp.eexp, computed here on its own)
    from exactpack.solvers.guderley import eexp as _eexp
    o.close('similarity exponent shown by the fields = documented lambda(gamma, geometry)', lam, float(cat.quiet(_eexp.eexp, int(P['geometry']), float(P['gamma']))), 1e-4)
    o.label('geom%d' % P['geometry'], 'gamma%g' % P['gamma'])
    # points with equal xi = t_L / r^lambda at the two (pre-collapse) times and at a post-collapse time
    xi = np.asarray(case['xi'])
    r1 = (tl1 / xi) ** alpha
    r2 = (tl2 / xi) ** alpha
    A, B = f(r1, t1), f(r2, t2)
    o.close('density depends on t_L/r^lambda only', A[0], B[0], 2e-6)
    o.close('u t_L / r depends on t_L/r^lambda only', A[1] * tl1 / r1, B[1] * tl2 / r2, 2e-6, scale=np.max(np.abs(A[1] * tl1 / r1)))
    o.close('p t_L^2 / (rho r^2) depends on t_L/r^lambda only', A[2] * tl1 ** 2 / (A[0] * r1 ** 2), B[2] * tl2 ** 2 / (B[0] * r2 ** 2), 4e-6,
            scale=np.max(np.abs(A[2] * tl1 ** 2 / (A[0] * r1 ** 2))))
    # post-collapse: two times, equal positive xi
    xip = np.asarray(case['xip'])
    t3, t4 = 0.9, 1.4
    tl3, tl4 = t3 / FACTOR_C - 1, t4 / FACTOR_C - 1
    r3, r4 = (tl3 / xip) ** alpha, (tl4 / xip) ** alpha
    C, Dd = f(r3, t3), f(r4, t4)
    o.close('post-collapse: density depends on t_L/r^lambda only', C[0], Dd[0], 5e-6)
    o.close('post-collapse: u t_L / r depends on t_L/r^lambda only', C[1] * tl3 / r3, Dd[1] * tl4 / r4, 5e-6, scale=np.max(np.abs(C[1] * tl3 / r3)) + 1e-3)
    o.close('post-collapse: p t_L^2 / (rho r^2) depends on t_L/r^lambda only', C[2] * tl3 ** 2 / (C[0] * r3 ** 2), Dd[2] * tl4 ** 2 / (Dd[0] * r4 ** 2), 1e-5,
            scale=np.max(np.abs(C[2] * tl3 ** 2 / (C[0] * r3 ** 2))))
    o.label('behind-reflected-shock' if np.any(xip > 0.75) else 'ahead-of-reflected-shock')
    o.nontrivial = True
    return o


OBLIGATIONS = [
    Obligation('igeos-similarity', riemann_pair('ig'), check_riemann, quick=400, thorough=15000),
    Obligation('geneos-similarity', riemann_pair('gen'), check_riemann, quick=24, thorough=400, min_per_shard=1, expected_exc=(ValueError,)),
    Obligation('noh-cog19-similarity', noh_pair(), check_noh, quick=400, thorough=15000),
    Obligation('ehep-regionI-similarity', ehep_pair(), check_ehep, quick=300, thorough=10000),
    Obligation('mader-similarity', mader_pair(), check_mader, quick=300, thorough=10000),
    Obligation('sedov-similarity', sedov_pair(), check_sedov, quick=12, thorough=200, min_per_shard=1),
    Obligation('guderley-similarity', guderley_pair(), check_guderley, quick=6, thorough=32, min_per_shard=1),
]
for _o in OBLIGATIONS:
    if _o.name in ('geneos-similarity', 'sedov-similarity', 'guderley-similarity'):
        _o.cost = 50.0
