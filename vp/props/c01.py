"""C01 - returned fields satisfy the documented governing PDEs wherever smooth."""
import math
import numpy as np
from hypothesis import strategies as st, assume

from ..core import Obligation, Out
from .. import cat, cogcat, numdiff
from ..strat import uni, logu, pos, gamma_gt1, geometry

META = dict(
    technique='Hypothesis-generated parameters/points/times; PDE residuals from 4th-order finite differences of the public call at two step sizes',
    rule='cases = (solver, admissible parameters in every geometry, time in the validity interval, points in smooth regions '
         'drawn relative to the solution structure); oracle = residual of the documented mass / momentum / energy equation '
         '(incl. heat-flux divergence for Coggeshall 8-18), normalised by the natural magnitude of its terms, must be below the '
         'tolerance class at step h AND h/2; non-trivial = non-default parameters or geometry != 3 and a non-constant state; distinct = case hash',
    assumptions=['derivatives only through public calls at displaced points/times; a violation needs the residual above tolerance at both step sizes',
                 'Coggeshall energy equation used in the physically meaningful form Gamma/(gamma-1)(T_t+uT_r)+Gamma T div u + (1/rho) div F = 0 '
                 '(the docstring prints T/(gamma-1) for Gamma/(gamma-1)); F = -(4 c a lambda0/3) rho^alpha T^(beta+3) T_r with the c, a of the solvers',
                 'problems without a lambda0 parameter (Cog 8, 9, 11, 12, 18) must satisfy the hydrodynamic part and div F = 0 separately'])

TOL_CLOSED = 1e-7


def _gas_fields(case, solver=None, tname=None):
    s = solver or cat.make_solver(case)

    def f(r, t):
        sol = cat.quiet(s, np.asarray(r, float), t)
        d = dict(rho=np.asarray(sol['density'], float), u=np.asarray(sol['velocity'], float),
                 p=np.asarray(sol['pressure'], float), e=np.asarray(sol[tname or 'specific_internal_energy'], float))
        return d
    return f


def euler_residuals(o, f, r, t, k, hr, ht, tol, regime, steady=False, label='', time_scale=1.0):
    """mass, momentum, internal-energy equations in geometry factor k (0,1,2); two step sizes"""
    r = np.atleast_1d(np.asarray(r, float))
    res = []
    for fac in (1.0, 0.5):
        f0, fr = numdiff.d_dr(f, r, t, hr * fac)
        ft = {kk: np.zeros_like(r) for kk in f0} if steady else numdiff.d_dt(f, r, t, ht * fac)
        ft = {kk: v * time_scale for kk, v in ft.items()}
        rho, u, p, e = f0['rho'], f0['u'], f0['p'], f0['e']
        c = np.sqrt(np.abs(p) / np.where(rho > 0, rho, 1) + np.abs(e)) + np.abs(u)
        with np.errstate(all='ignore'):
            geo = np.where(r != 0, k * u / np.where(r != 0, r, 1), 0.0)
        mass = ft['rho'] + u * fr['rho'] + rho * (fr['u'] + geo)
        mom = ft['u'] + u * fr['u'] + fr['p'] / rho
        ene = ft['e'] + u * fr['e'] + (p / rho) * (fr['u'] + geo)
        L = np.maximum(np.abs(r), hr * 10)
        s_mass = np.maximum(np.abs(ft['rho']) + np.abs(u * fr['rho']) + np.abs(rho * fr['u']) + np.abs(rho * geo), rho * c / L)
        s_mom = np.maximum(np.abs(ft['u']) + np.abs(u * fr['u']) + np.abs(fr['p'] / rho), c * c / L)
        s_ene = np.maximum(np.abs(ft['e']) + np.abs(u * fr['e']) + np.abs((p / rho) * fr['u']) + np.abs(p / rho * geo), c ** 3 / L)
        s_mass, s_mom, s_ene = (np.where(v > 0, v, 1.0) for v in (s_mass, s_mom, s_ene))
        res.append(np.vstack([mass / s_mass, mom / s_mom, ene / s_ene]))
        # rounding error of the difference quotients themselves (eps |f| / h, and eps |r| f' / h from the rounding of r + h): negligible for
        # ordinary steps, but not in a fan that is only 1e-6 of the sound speed wide, where the step is 1e-9 of the position
        EPS3 = 3 * 2.3e-16
        hr_, ht_ = np.abs(hr * fac) + 1e-300, np.abs(ht * fac) + 1e-300
        nr = {kk: EPS3 * (np.abs(f0[kk]) + np.abs(fr[kk]) * np.abs(r)) / hr_ for kk in ('rho', 'u', 'p', 'e')}
        nt = {kk: (0.0 if steady else EPS3 * (np.abs(f0[kk]) + np.abs(ft[kk]) * abs(t)) / ht_ * time_scale) for kk in ('rho', 'u', 'p', 'e')}
        noise = np.vstack([(nt['rho'] + np.abs(u) * nr['rho'] + rho * nr['u']) / s_mass,
                           (nt['u'] + np.abs(u) * nr['u'] + nr['p'] / np.where(rho > 0, rho, 1)) / s_mom,
                           (nt['e'] + np.abs(u) * nr['e'] + np.abs(p / np.where(rho > 0, rho, 1)) * nr['u']) / s_ene])
        if fac == 1.0:
            nonconst = np.any((np.abs(fr['rho']) * L > 1e-3 * rho) | (np.abs(fr['u']) * L > 1e-3 * c))
    worst = np.minimum(np.abs(res[0]), np.abs(res[1]))
    for i, name in enumerate(('mass', 'momentum', 'energy')):
        o.close(label + name + ' equation residual', worst[i], 0.0, 0.0, atol=tol + noise[i], regime=regime,
                res_h=float(np.max(np.abs(res[0][i]))), res_h2=float(np.max(np.abs(res[1][i]))))
    return bool(nonconst)


# ------------------------------------------------------------------ Coggeshall
def check_cog(case):
    o = Out()
    n, geom = case['cog'], case['geometry']
    k = geom - 1.0
    P = case['params']
    s = cat.make_solver(case)
    G = P['Gamma']
    g = cogcat.gamma_eff(n, P, geom)
    cond = cogcat.conduction(n, P, geom)
    r = np.asarray(case['x'], float)
    t = case['t']
    rs = cogcat.shock_radius(n, P, geom, t)
    if rs is not None and rs > 0:
        r = r[np.abs(r / rs - 1) > 0.02]
        if r.size == 0:
            return o
    hr = 1e-3 * r
    steady = n in (4, 5, 10, 12, 14, 16)
    if n == 5:
        steady = False
    # time step: relative to the distance to the nearest singular time
    if n in (6, 7, 18):
        ht = 1e-3 * min(P['tau'] - t, t)
    elif n == 20:
        ht = 1e-3 * min(t, 1 / P['a'] - t, abs(0.5 / P['a'] - t) + 1e-3 / P['a'])
    elif n == 3:
        ht = 1e-3 / abs(P['b'])
    elif n == 5:
        ht = 1e-3 * max(t, 1.0)
    else:
        ht = 1e-3 * t if t > 0 else 1e-3

    def f(rr, tt):
        sol = cat.quiet(s, np.asarray(rr, float), tt)
        return dict(rho=np.asarray(sol['density'], float), u=np.asarray(sol['velocity'], float), T=np.asarray(sol['temperature'], float))

    region = ''
    if rs is not None:
        region = 'post-shock' if np.all(r < rs) else ('pre-shock' if np.all(r > rs) else 'both-sides')
    o.label('cog%d' % n, 'geom%d' % geom, region)
    res = []
    for fac in (1.0, 0.5):
        h = hr * fac
        f0, fr = numdiff.d_dr(f, r, t, h)
        ft = {kk: np.zeros_like(r) for kk in f0} if steady else numdiff.d_dt(f, r, t, ht * fac)
        rho, u, T = f0['rho'], f0['u'], f0['T']
        if not (np.all(np.isfinite(rho)) and np.all(np.isfinite(T)) and np.all(np.isfinite(u))):
            o.label('nonfinite-skip')
            return o
        cs = np.sqrt(np.abs(G * T)) + np.abs(u)
        div_u = fr['u'] + k * u / r
        mass = ft['rho'] + u * fr['rho'] + rho * div_u
        mom = ft['u'] + u * fr['u'] + G * T / rho * fr['rho'] + G * fr['T']
        hyd = G / (g - 1) * (ft['T'] + u * fr['T']) + G * T * div_u
        s_mass = np.maximum(np.abs(ft['rho']) + np.abs(u * fr['rho']) + np.abs(rho * fr['u']) + np.abs(rho * k * u / r), rho * cs / r)
        s_mom = np.maximum(np.abs(ft['u']) + np.abs(u * fr['u']) + np.abs(G * T / rho * fr['rho']) + np.abs(G * fr['T']), cs * cs / r)
        s_hyd = np.maximum(np.abs(G / (g - 1)) * (np.abs(ft['T']) + np.abs(u * fr['T'])) + np.abs(G * T * fr['u']) + np.abs(G * T * k * u / r), cs ** 3 / r)
        row = [mass / s_mass, mom / s_mom]
        if cond is None:
            row += [hyd / s_hyd, np.zeros_like(r)]
        else:
            alpha, beta, lam0 = cond
            if alpha == 'derive':      # Cog12: alpha fixed by div F = 0 for rho ~ r^c1, T ~ r^(2 c2)
                gam = P['gamma']
                c1 = -2 * k / (gam + 1)
                c2 = k * (1 - gam) / (1 + gam)
                alpha = -((beta + 4) * 2 * c2 - 1 + k) / c1
            K0 = 4 * cogcat.C_LIGHT * cogcat.A_RAD / 3 * (lam0 if lam0 is not None else 1.0)

            def flux(rr, tt):
                # F at the points rr from an inner stencil on T
                rr = np.asarray(rr, float)
                hi = 1e-3 * rr * fac
                g0, gr = numdiff.d_dr(f, rr, tt, hi)
                return dict(F=-K0 * np.abs(g0['rho']) ** alpha * np.abs(g0['T']) ** (beta + 3) * gr['T'])
            F0, Fr = numdiff.d_dr(flux, r, t, h * 4)
            divF = (Fr['F'] + k * F0['F'] / r) / rho
            s_F = np.abs(F0['F']) / (rho * r)
            if lam0 is None:
                row += [hyd / s_hyd, divF / np.maximum(s_F, 1e-300)]
            else:
                tot = hyd + divF
                row += [tot / np.maximum(s_hyd + np.abs(divF), s_F), np.zeros_like(r)]
        res.append(np.vstack(row))
        if fac == 1.0:
            nonconst = bool(np.any((np.abs(fr['rho']) * r > 1e-3 * rho) | (np.abs(fr['T']) * r > 1e-3 * np.abs(T)) | (np.abs(u) > 0)))
    worst = np.minimum(np.abs(res[0]), np.abs(res[1]))
    names = ['mass', 'momentum', 'energy', 'div F = 0 (no lambda0 parameter)']
    for i, name in enumerate(names):
        o.close(name + ' equation residual', worst[i], 0.0, 0.0, atol=TOL_CLOSED if i < 3 else 1e-6, regime=region,
                res_h=float(np.max(np.abs(res[0][i]))), res_h2=float(np.max(np.abs(res[1][i]))))
    o.nontrivial = nonconst and (geom != 3 or any(abs(v - getattr(type(s), kk, v)) > 1e-12 for kk, v in P.items() if isinstance(v, float)))
    return o


# ------------------------------------------------------------------ Noh, Noh2
def check_noh(case):
    o = Out()
    k = case['geometry'] - 1.0
    r = np.asarray(case['x'], float)
    r = r[np.abs(r / case['shock'] - 1) > 0.02]
    if r.size == 0:
        return o
    f = _gas_fields(case)
    side = 'post-shock' if np.all(r < case['shock']) else ('pre-shock' if np.all(r > case['shock']) else 'both-sides')
    o.label('geom%d' % case['geometry'], side)
    nc = euler_residuals(o, f, r, case['t'], k, 1e-3 * r, 1e-3 * case['t'], TOL_CLOSED, side)
    o.nontrivial = nc
    return o


def check_noh2(case):
    o = Out()
    k = case['geometry'] - 1.0
    r = np.asarray(case['x'], float)
    f = _gas_fields(case)
    o.label('geom%d' % case['geometry'], case['solver'].rsplit('.', 1)[1])
    nc = euler_residuals(o, f, r, case['t'], k, 1e-3 * r, 1e-3 * min(case['t'], 1 - case['t']), TOL_CLOSED, '')
    o.nontrivial = True
    return o


# ------------------------------------------------------------------ EHEP regions I-V
@st.composite
def ehep_case(draw):
    p = draw(cat.ehep_params())
    pts = draw(st.lists(st.tuples(st.sampled_from(['I', 'II', 'III', 'IV', 'V']), st.lists(uni(0.1, 1.0), min_size=4, max_size=4)),
                        min_size=1, max_size=4))
    return dict(solver=cat.EHEP, params=p, pts=pts)


def check_ehep(case):
    from .c03 import ehep_point
    o = Out()
    s = cat.make_solver(case)
    f = _gas_fields(case, solver=s)
    P = case['params']
    for region, w in case['pts']:
        c = np.asarray(s.corners[region], float)
        cen = c.mean(axis=0)
        x, t = ehep_point(s, region, w)
        # shrink 10 % toward the centroid so that the stencil stays inside the region
        x, t = cen[0] + 0.9 * (x - cen[0]), cen[1] + 0.9 * (t - cen[1])
        size_x = 0.5 * (c[:, 0].max() - c[:, 0].min())
        size_t = 0.5 * (c[:, 1].max() - c[:, 1].min())
        hx, ht = 2e-4 * min(size_x, P['xtilde']), 2e-4 * min(size_t, P['xtilde'] / P['D'])
        # all stencil points must report the same region
        xs = [x - 2 * hx, x + 2 * hx]
        regs = set(str(v) for v in cat.quiet(s, np.array(xs), t)['region']) | \
            set(str(cat.quiet(s, np.array([x]), tt)['region'][0]) for tt in (t - 2 * ht, t + 2 * ht))
        if regs != {region}:
            o.label('stencil-leaves-region-skip')
            continue
        o.label('region-' + region)
        euler_residuals(o, f, np.array([x]), t, 0.0, hx, ht, TOL_CLOSED, 'region ' + region)
        o.nontrivial = True
    return o


# ------------------------------------------------------------------ Riemann fans
@st.composite
def fan_case(draw, solver):
    c = draw(cat.riemann_case(solver=solver, n_min=1, n_max=1))
    assume('R' in c['pattern'].replace('C', ''))
    c['fr'] = draw(st.lists(uni(0.1, 0.9), min_size=1, max_size=4))
    c['which'] = draw(st.sampled_from(['left', 'right']))
    return c


def _fan_points(case):
    pat, sp = case['pattern'], case['speeds']
    fans = []
    if pat[0] == 'R':
        fans.append(('left', sp[0], sp[1]))
    if pat[-1] == 'R':
        fans.append(('right', sp[-2], sp[-1]))
    if 'num_x_pts' not in case['params']:      # (the general-EOS obligation has few cases: it looks at both fans of an RCR solution)
        fans = [fn for fn in fans if fn[0] == case['which']] or fans
    out = []
    for name, v0, v1 in fans:
        if abs(v1 - v0) < 1e-6 * (abs(v0) + abs(v1) + 1e-30):
            continue
        for f in case['fr']:
            out.append((name, v0 + f * (v1 - v0), abs(v1 - v0)))
    return out


def check_fan(case):
    o = Out()
    P = case['params']
    t = case['t']
    pts = _fan_points(case)
    if not pts:
        o.label('degenerate-fan-skip')
        return o
    gen = 'num_x_pts' in P
    s = cat.make_solver(case)
    f = _gas_fields(case, solver=s)
    o.label(case['pattern'], 'ul!=ur' if P['ul'] != P['ur'] else 'ul==ur')
    for name, v, width in pts:
        x = P['xd0'] + v * t
        # stay inside the fan: step a fraction of the distance to the fan edges
        lo, hi = (case['speeds'][0], case['speeds'][1]) if name == 'left' else (case['speeds'][-2], case['speeds'][-1])
        room = min(v - lo, hi - v)
        if gen:
            # the general solver returns linear interpolants on its own grid: a stencil must span several of its cells (else it differentiates
            # one straight segment) and must fit between the point and the fan edges; fans only a few cells wide are below the documented
            # resolution and give no point (thorough tier: 4-cell and 17-cell fans produced residuals of 3e-4 .. 0.8)
            cell = (P['xmax'] - P['xmin']) / (P['num_x_pts'] - 1)
            hx = max(2.0 * cell, 0.02 * width * t)
            if room * t < 3.0 * hx:
                o.label('fan-below-grid-resolution-skip')
                continue
            ht = min(0.1 * room / (abs(v) + width) * t, 0.02 * t)
            ht = max(ht, hx / (abs(v) + width))
            tol = 2e-4
        else:
            hx = min(0.2 * room * t, 1e-3 * width * t)
            ht = hx / (abs(v) + width)
            tol = TOL_CLOSED
        euler_residuals(o, f, np.array([x]), t, 0.0, hx, ht, tol, name + ' fan ' + case['pattern'])
    o.nontrivial = P['ul'] != P['ur'] or P['gl'] != 1.4 or P['gr'] != 1.4
    return o


# ------------------------------------------------------------------ Sedov interior
@st.composite
def sedov_case(draw):
    c = draw(cat.sedov_params(types=('standard', 'standard', 'vacuum'), wrappers=False))
    if draw(st.integers(0, 3)) == 0:
        # the removable singularity omega = j (2 - gamma) ('omega3') has its own closed-form branch in the solver
        g_ = draw(st.sampled_from([5.0 / 3.0, 1.4, 1.8, 1.5]))
        k_ = c['geometry']
        om = k_ * (2.0 - g_)
        if 0.05 < om < min(cat.sedov_omega_singular(k_, g_), k_) - 0.05:
            c.update(gamma=g_, omega=om, kind='standard', params=dict(c['params'], gamma=g_, omega=om))
    c['t'] = draw(logu(0.2, 3.0))
    c['fr'] = draw(st.lists(uni(0.3, 0.93), min_size=3, max_size=6))
    return c


def check_sedov(case):
    o = Out()
    s = cat.make_solver(case)
    t = case['t']
    cat.quiet(s, np.array([1.0]), t)
    r2 = float(s.r2)
    lo = 0.0
    if case['kind'] == 'vacuum':
        lo = float(s.rvv) / r2
    fr = np.array([lo + (1 - lo) * f for f in case['fr']])
    r = r2 * fr
    far = 1.6 * r2      # pins the internal grid (linspace(0, max(r), 3001)) for every call

    def f(rr, tt):
        sol = cat.quiet(s, np.concatenate([np.asarray(rr, float), [far]]), tt)
        return dict(rho=np.asarray(sol['density'], float)[:-1], u=np.asarray(sol['velocity'], float)[:-1],
                    p=np.asarray(sol['pressure'], float)[:-1], e=np.asarray(sol['specific_internal_energy'], float)[:-1])
    o.label('geom%d' % case['geometry'], case['kind'])
    # the docstring disclaims density/energy 'at small values of radius' for the standard case (values there are
    # interpolated to the origin): keep points where the density is at least 3e-3 of the post-shock density
    rho_here = f(r, t)['rho']
    keep = rho_here >= 3e-3 * float(s.rho2)
    roomf = np.minimum(1 - fr, fr - lo)
    keep &= roomf >= 0.04
    if not keep.all():
        o.label('small-radius-or-edge-points-dropped')
    r, fr, roomf = r[keep], fr[keep], roomf[keep]
    if r.size == 0:
        return o
    hr = np.minimum(0.01 * r2, 0.3 * roomf * r2)
    ht = 0.004 * t          # moves the shock by < 1 % of r2: stays inside (lo, 1) given roomf >= 0.04
    nc = euler_residuals(o, f, r, t, case['geometry'] - 1.0, hr, ht, 3e-3, case['kind'])
    o.nontrivial = nc
    return o


# ------------------------------------------------------------------ Guderley
@st.composite
def guderley_case(draw):
    p = draw(cat.guderley_params())
    which = draw(st.sampled_from(['pre', 'post-inner', 'post-outer']))
    return dict(solver=cat.GUDERLEY, params=p, which=which, fr=draw(st.lists(uni(0.15, 0.85), min_size=2, max_size=4)))


FACTOR_C = 0.750024322


def _guderley_setup(case):
    P = case['params']
    s = cat.make_solver(case)
    f = _gas_fields(case, solver=s)
    t = 0.4 if case['which'] == 'pre' else 1.2
    r_all = np.linspace(0.05, 3.0, 120)
    rho = np.asarray(cat.quiet(s, r_all, t)['density'], float)
    jump = np.argmax(np.abs(np.diff(np.log(rho))))
    rs = 0.5 * (r_all[jump] + r_all[jump + 1])
    if case['which'] in ('post-outer', 'pre'):
        r = rs * (1.15 + 1.2 * np.asarray(case['fr']))
    else:
        r = rs * (0.15 + 0.7 * np.asarray(case['fr']))
    return P, f, t, r


def check_guderley(case):
    """Euler equations in the PUBLIC time coordinate (the solver's time argument)"""
    o = Out()
    P, f, t, r = _guderley_setup(case)
    o.label('geom%d' % P['geometry'], 'gamma%g' % P['gamma'], case['which'])
    euler_residuals(o, f, r, t, P['geometry'] - 1.0, 0.01 * r, 0.004, 3e-3, case['which'])
    o.nontrivial = True
    return o


def check_guderley_lazarus(case):
    """The same equations with d/dt taken in Lazarus time t_L = t/0.750024322 - 1 (the unit the returned velocities
    are expressed in).  Weaker than the property (see KF-C01-guderley-time-units) but keeps the similarity ODE
    integration, the reflected-shock jump and the dimensionalisation under test."""
    o = Out()
    P, f, t, r = _guderley_setup(case)
    o.label('geom%d' % P['geometry'], 'gamma%g' % P['gamma'], case['which'])
    euler_residuals(o, f, r, t, P['geometry'] - 1.0, 0.01 * r, 0.004, 3e-3, case['which'], time_scale=FACTOR_C,
                    label='[Lazarus time] ')
    o.nontrivial = True
    return o


OBLIGATIONS = [
    Obligation('cog-pde', cogcat.cog_case(n_min=1, n_max=4), check_cog, quick=2000, thorough=60000),
    Obligation('noh-pde', cat.noh_case(n_min=1, n_max=4), check_noh, quick=300, thorough=10000),
    Obligation('noh2-pde', cat.noh2_case(n_min=1, n_max=4), check_noh2, quick=300, thorough=10000),
    Obligation('ehep-pde', ehep_case(), check_ehep, quick=300, thorough=10000),
    Obligation('igeos-fan-pde', fan_case('ig'), check_fan, quick=300, thorough=10000),
    Obligation('geneos-fan-pde', fan_case('gen'), check_fan, quick=48, thorough=600, min_per_shard=1, expected_exc=(ValueError,)),
    Obligation('sedov-pde', sedov_case(), check_sedov, quick=16, thorough=300, min_per_shard=1),
    Obligation('guderley-pde', guderley_case(), check_guderley, quick=8, thorough=32, min_per_shard=1),
    Obligation('guderley-pde-lazarus-time', guderley_case(), check_guderley_lazarus, quick=12, thorough=48, min_per_shard=1),
]
for _o in OBLIGATIONS[5:]:
    _o.cost = 50.0
