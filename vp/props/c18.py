"""C18 - Su-Olson temperatures solve the non-equilibrium Marshak diffusion problem."""
import math
import numpy as np
from hypothesis import strategies as st

from ..core import Obligation, Out
from .. import cat
from ..strat import uni, logu

META = dict(
    technique='Hypothesis-generated (opacity, specific-heat coefficient i.e. epsilon, boundary temperature, x, tau); finite-difference residuals of the dimensionless '
              'equations at two step sizes, one-sided Marshak condition, decay and ordering predicates; generated request layouts (cold points first, unsorted, '
              'near-surface points) against single-point requests',
    rule='cases = (opac, alpha with epsilon = 4a/alpha in [0.1, 2.5], T_bc, dimensionless position x in [0, 10] and time tau in [0.05, 30]) mapped to physical '
         '(z, t) with the documented conversion x = sqrt3 opac z, tau = 4 a c opac t / alpha; oracle = eps u_tau - u_xx - (v - u) = 0 and v_tau - (u - v) = 0 with '
         'u = (T_rad/T_bc)^4, v = (T_mat/T_bc)^4 (4th-order stencils, h and h/2 must both fail), u - (2/sqrt3) u_x = 1 at x = 0 (one-sided 4th-order), '
         'u, v -> 0 for x >> sqrt(tau); non-trivial = non-default opac/alpha/T_bc; distinct = case hash',
    assumptions=['constants as in timmes.so_wave: c = 2.99792458e10, sigma = 5.67051e-5, a = 4 sigma/c, k = 8.617385e-5 eV/K (T_bc cancels in u, v)',
                 'residual tolerance 3e-4 of the magnitude of the terms (the transforms are integrated to ~1e-8)'])

SUO = 'exactpack.solvers.suolson.suolson.SuOlson'
CL = 2.99792458e10
ASOL = 4.0 * 5.67051e-5 / CL
RT3 = math.sqrt(3.0)


@st.composite
def so_case(draw):
    eps = draw(st.one_of(st.sampled_from([1.0, 0.1]), logu(0.1, 2.5)))
    opac = draw(st.one_of(st.just(1.0), logu(0.05, 20.0), logu(20.0, 1e5)))          # (dense material: the mean free path is far below any length written into the code)
    tbc = draw(st.one_of(st.just(1.0e3), logu(10.0, 1e4)))
    tau = draw(st.one_of(logu(0.05, 30.0), st.sampled_from([0.1, 1.0, 10.0])))
    # positions inside the heated layer (a few diffusion lengths), where the field is above the quadrature noise
    x = draw(uni(0.1, 1.0)) * min(10.0, 0.3 + 2.0 * math.sqrt(tau / eps))
    return dict(solver=SUO, params=dict(opac=opac, alpha=4 * ASOL / eps, trad_bc_ev=tbc), eps=eps, x=x, tau=tau)


def uv(s, P, xs, tau):
    """dimensionless u, v at dimensionless positions xs and time tau through the public call"""
    z = np.asarray(xs, float) / (RT3 * P['opac'])
    t = tau * P['alpha'] / (4 * ASOL * CL * P['opac'])
    sol = cat.quiet(s, z, t)
    tb = P['trad_bc_ev']
    return (np.asarray(sol['temperature_rad'], float) / tb) ** 4, (np.asarray(sol['temperature_mat'], float) / tb) ** 4


C1 = np.array([1, -8, 0, 8, -1]) / 12.0
C2 = np.array([-1, 16, -30, 16, -1]) / 12.0
J = np.array([-2, -1, 0, 1, 2])


def check_pde(case):
    o = Out()
    P = case['params']
    s = cat.make_solver(case)
    eps, x, tau = case['eps'], case['x'], case['tau']
    res = []
    for fac in (1.0, 0.5):
        hx = min(0.1, x / 2.5) * fac
        ht = min(0.05, tau / 4.0) * fac
        U, V = uv(s, P, x + J * hx, tau)
        Ut, Vt = [], []
        for m in J:
            if m == 0:
                Ut.append(U[2])
                Vt.append(V[2])
            else:
                a, b = uv(s, P, [x], tau + m * ht)
                Ut.append(a[0])
                Vt.append(b[0])
        Ut, Vt = np.array(Ut), np.array(Vt)
        u, v = U[2], V[2]
        u_t, v_t = Ut @ C1 / ht, Vt @ C1 / ht
        u_xx = U @ C2 / hx ** 2
        r1 = eps * u_t - u_xx - (v - u)
        r2 = v_t - (u - v)
        s1 = abs(eps * u_t) + abs(u_xx) + abs(v - u) + 1e-3 * u + 1e-12
        s2 = abs(v_t) + abs(u - v) + 1e-3 * u + 1e-12
        res.append((r1 / s1, r2 / s2))
        if fac == 1.0:
            # the transforms are evaluated with root finds / quadratures (brentq xtol = 1e-6) whose absolute error reaches ~6e-6 (measured in the
            # thorough tier; 1e-5 is allowed): in the second difference that noise is amplified by sum|C2| / hx^2, in the time difference by sum|C1| / ht
            noise1 = 1e-5 * (64.0 / 12.0 / hx ** 2 + eps * 18.0 / 12.0 / ht) / s1
            noise2 = 1e-5 * (18.0 / 12.0 / ht) / s2
    o.label('eps<0.5' if eps < 0.5 else ('eps>1.5' if eps > 1.5 else 'eps~1'), 'tau<1' if tau < 1 else 'tau>=1', 'u=%.0e' % u)
    # The transforms are integrated with an absolute error of ~1e-5 (growing with x): where the field itself is that small
    # ('for which the oscillatory integrals converge' in the property) the residuals measure quadrature noise, not the equations.
    # Ordering/positivity far ahead of the wave is C17's question (KF-C17-suolson-far-field-noise).
    if u < 0.02:
        o.label('field-below-quadrature-noise-skip')
        return o
    o.true('0 <= v <= u <= 1', -1e-9 <= v <= u + 5e-5 and u <= 1 + 1e-6, u=float(u), v=float(v))
    w1 = min(abs(res[0][0]), abs(res[1][0]))
    w2 = min(abs(res[0][1]), abs(res[1][1]))
    o.close('radiation equation: eps u_tau = u_xx + (v - u)', w1, 0.0, 0.0, atol=3e-4 + noise1, res_h=float(res[0][0]), res_h2=float(res[1][0]))
    o.close('material equation: v_tau = u - v', w2, 0.0, 0.0, atol=3e-4 + noise2, res_h=float(res[0][1]), res_h2=float(res[1][1]))
    o.nontrivial = P['opac'] != 1.0 or P['trad_bc_ev'] != 1.0e3 or eps != 1.0
    return o


@st.composite
def bc_case(draw):
    c = draw(so_case())
    c['far'] = draw(uni(2.0, 6.0))
    return c


def check_bc(case):
    o = Out()
    P = case['params']
    s = cat.make_solver(case)
    eps, tau = case['eps'], case['tau']
    w = []
    for h in (0.05, 0.025):
        U, V = uv(s, P, h * np.arange(5), tau)
        ux = (-25 * U[0] + 48 * U[1] - 36 * U[2] + 16 * U[3] - 3 * U[4]) / (12 * h)
        w.append(U[0] - 2 / RT3 * ux - 1.0)
    o.close('Marshak condition u - (2/sqrt3) u_x = 1 at x = 0', min(abs(w[0]), abs(w[1])), 0.0, 0.0, atol=2e-4, res_h=float(w[0]), res_h2=float(w[1]))
    # decay: the diffusion front cannot be ahead of ~ sqrt(tau/eps) + tau (free streaming is excluded by diffusion; generous bound)
    xfar = 6.0 * math.sqrt(tau / eps) * case['far'] + 10.0
    U, V = uv(s, P, [xfar, 2 * xfar], tau)
    # (down to the solver's quadrature noise floor ~1e-5 x/20 in v, i.e. T/T_bc < ~0.1)
    bound = 1e-4 * (1 + np.array([xfar, 2 * xfar]) / 20)      # (each point against the noise floor at its own position)
    o.true('u, v decay to zero for x -> infinity', bool(np.all(U < bound) and np.all(V < bound)), U=U.tolist(), V=V.tolist(), xfar=xfar)
    o.label('eps<0.5' if eps < 0.5 else ('eps>1.5' if eps > 1.5 else 'eps~1'))
    o.nontrivial = P['opac'] != 1.0 or P['trad_bc_ev'] != 1.0e3 or eps != 1.0
    return o


@st.composite
def layout_case(draw):
    c = draw(so_case())
    # later times as well (the published tables go to tau = 100): far ahead of the wave the field then really is below every noise floor
    c['tau'] = draw(st.one_of(logu(0.05, 100.0), logu(20.0, 100.0)))
    front = 0.3 + 2.0 * math.sqrt(c['tau'] / c['eps'])
    c['hot'] = [draw(uni(0.0, 1.0)) * min(10.0, front) for _ in range(2)] + [draw(st.one_of(logu(1e-9, 1e-3), st.just(0.0), uni(0.0, 0.1)))]
    c['cold'] = [draw(uni(1.5, 4.0)) * (front + c['tau'] / 2 + 10.0) for _ in range(2)]
    c['order'] = draw(st.permutations(range(5)))
    c['cold_first'] = draw(st.booleans())
    return c


def check_layout(case):
    """The equations are stated for every x > 0: the temperatures a user gets at heated points must be the same whatever else is in the request -
    in particular when cold points far ahead of the wave come first or in between (positions need not be ascending)."""
    o = Out()
    P = case['params']
    s = cat.make_solver(case)
    tau = case['tau']
    pts = case['hot'] + case['cold']
    order = list(case['order'])
    if case['cold_first']:
        order = [3] + [i for i in order if i != 3]
    xs = [pts[i] for i in order]
    U, V = uv(s, P, xs, tau)
    s1 = cat.make_solver(case)
    for j, i in enumerate(order):
        u1, v1 = uv(s1, P, [pts[i]], tau)
        kind = 'heated' if i < 3 else 'cold'
        o.close('u at a %s point does not depend on the rest of the request' % kind, float(U[j]), float(u1[0]), 1e-9, atol=1e-12, x=pts[i], pos_in_request=j, request=xs)
        o.close('v at a %s point does not depend on the rest of the request' % kind, float(V[j]), float(v1[0]), 1e-9, atol=1e-12, x=pts[i], pos_in_request=j, request=xs)
    cold_u = [float(U[j]) for j, i in enumerate(order) if i >= 3]
    U3, V3 = uv(s1, P, [1e-3], tau)
    us, vs = uv(s1, P, [pts[2]], tau)
    # (within 1e-3 mean free paths of the surface u changes by less than 1e-3 (2/sqrt3 u_x = u - 1 there), v by less still)
    o.close('u within 1e-3 mean free paths of the surface is the surface value', float(us[0]), float(U3[0]), 0.0, atol=2e-3 * (1 + pts[2] / 1e-3), x=pts[2]) if pts[2] <= 0.1 else None
    o.label('tau>=20' if tau >= 20 else 'tau<20', 'near-surface point' if 0 < pts[2] < 1e-3 else 'no near-surface point', 'cold point first' if order[0] >= 3 else 'heated point first',
            'cold u<1e-8' if min(cold_u) < 1e-8 else 'cold u>=1e-8')
    o.nontrivial = order != sorted(order, key=lambda i: pts[i])
    return o


OBLIGATIONS = [
    Obligation('suolson-pde', so_case(), check_pde, quick=160, thorough=5000, min_per_shard=4),
    Obligation('suolson-marshak-and-decay', bc_case(), check_bc, quick=96, thorough=3000, min_per_shard=4),
    Obligation('suolson-request-layout', layout_case(), check_layout, quick=96, thorough=3000, min_per_shard=4),
]
