"""C20 - invalid problems are rejected loudly; no finite garbage outside the validity domain; valid requests are finite."""
import ast, math, os
import numpy as np
from hypothesis import strategies as st, assume

from ..fuzz import fuzzed, CHEAP_MODULES
from ..core import Obligation, Out, REPO
from .. import cat, cogcat, allsolvers
from ..strat import uni, logu, pos

META = dict(
    technique='Hypothesis over an enumerable catalogue of documented restrictions (violating, boundary and just-inside values) audited against an AST walk of every '
              '"raise ValueError" site, over out-of-domain requests, and over the union of the valid-input recipes for finiteness; coverage-guided supplement: the same strategy and oracle driven by atheris/libFuzzer through Hypothesis fuzz_one_input (obligations *-atheris)',
    rule='cases = (catalogue entry: solver class, valid base keywords, one violated restriction with a generated violating value; or an out-of-domain time/position request; '
         'or a valid in-domain case from the recipes of the other properties); oracle = violating input raises ValueError at construction (at call time only where the '
         'documentation places the check there), an out-of-domain request raises or returns only NaN - never finite numbers -, a valid request returns no NaN/inf and raises nothing; '
         'the catalogue is audited at run time against ast-discovered raise sites (files with more sites than catalogue entries are listed in the evidence); '
         'non-trivial = every case (each exercises a restriction or a generated valid input); distinct = case hash',
    assumptions=['restrictions are taken from constructor checks, parameter help strings and docstrings only',
                 'loud failures with another exception type (NameError for the vacuum Riemann pattern, bisect ValueError for p* > 10 max p) are rejections, not garbage'])

S = 'exactpack.solvers.'

# ---------------------------------------------------------------- the restriction catalogue
# (id, class path, base kwargs, {param: strategy of violating values}, where: 'ctor' | 'call', documented_only)
def _neg():
    return st.one_of(st.just(0.0), st.just(-1.0), uni(-10.0, 0.0))


def _negstrict():
    return st.one_of(st.just(-1.0), uni(-10.0, -1e-9))


def _badgeom(ok):
    return st.sampled_from([g for g in (0, 1, 2, 3, 4, -1, 1.5) if g not in ok])


@st.composite
def _ken2_early(draw):
    """documented: an outer detonator must not fire before t_d3 + R (1/D1 + 1/D2) - |a_i| / D2 (non-default speeds, radius, positions)"""
    D1 = draw(uni(2.0, 6.0))
    D2 = draw(uni(0.4, 0.95)) * D1 if draw(st.booleans()) else draw(uni(0.5, 1.9))
    R = draw(uni(1.5, 4.0))
    dets = [R + draw(uni(2.0, 8.0)), R + draw(uni(0.5, 3.0)), -R - draw(uni(0.5, 3.0)), -R - draw(uni(2.0, 8.0))]
    t3 = draw(uni(-1.0, 1.0))
    bound = [t3 + R * (1 / D1 + 1 / D2) - abs(a) / D2 for a in dets]
    i = draw(st.integers(0, 3))
    t = [b + draw(uni(0.2, 2.0)) for b in bound]
    t[i] = bound[i] - draw(uni(0.02, 0.5))
    t_d = [t[0], t[1], t3, t[2], t[3]]
    return dict(D1=D1, D2=D2, R=R, dets=dets, t_d=t_d)


@st.composite
def _ratestick_rd(draw):
    """documented for IC = 1: r_d >= R / cos(omega_c), with a non-default edge angle and radius"""
    R = draw(uni(0.5, 2.0))
    w = draw(st.one_of(uni(0.15, 0.7), uni(0.87, 1.35)))
    return dict(IC=1, R=R, omega_c=w, r_d=R / math.cos(w) * draw(uni(0.55, 0.97)))


def catalogue():
    C = []

    def add(cid, path, base, viol, where='ctor', doc_only=False, special=None):
        C.append(dict(id=cid, solver=S + path, base=base, viol=viol, where=where, doc_only=doc_only, special=special))
    add('noh.geometry', 'noh.noh1.Noh', {}, dict(geometry=_badgeom((1, 2, 3))))
    add('noh.u0', 'noh.noh1.Noh', {}, dict(u0=st.one_of(st.just(0.0), uni(0.0, 5.0))))
    add('noh2.geometry', 'noh2.noh2.Noh2', {}, dict(geometry=_badgeom((1, 2, 3))))
    add('sedov.geometry', 'sedov.sedov.Sedov', {}, dict(geometry=_badgeom((1, 2, 3))))
    add('sedov.gamma', 'sedov.sedov.Sedov', {}, dict(gamma=uni(0.1, 0.999)))
    add('sedov.rho0', 'sedov.sedov.Sedov', {}, dict(rho0=_negstrict()))
    add('sedov.eblast', 'sedov.sedov.Sedov', {}, dict(eblast=_negstrict()))
    add('sedov.omega-neg', 'sedov.sedov.Sedov', {}, dict(omega=_negstrict()))
    add('sedov.omega-ge-geometry', 'sedov.sedov.Sedov', {}, dict(omega=st.one_of(st.just(3.0), uni(3.0, 6.0))))
    for n in cogcat.COG_IDS:
        if n in cogcat.NO_GEOM_PARAM:
            continue
        base = dict(Gamma=40.0) if n == 11 else {}
        add('cog%d.geometry' % n, 'cog.cog%d.Cog%d' % (n, n), base, dict(geometry=_badgeom(cogcat.GEOMS[n])))
    add('cog13.gamma', 'cog.cog13.Cog13', {}, dict(gamma=st.just(1.0)))
    add('cog16.b', 'cog.cog16.Cog16', dict(geometry=3), dict(b=st.just(2.0)))
    add('cog18.alpha', 'cog.cog18.Cog18', {}, dict(alpha=st.just(0.0)))
    add('cog19.u0', 'cog.cog19.Cog19', {}, dict(u0=uni(1e-6, 5.0)))
    add('cog20.a', 'cog.cog20.Cog20', {}, dict(a=st.just(0.0)))
    E = 'ehep.ehep.EscapeOfHEProducts'
    add('ehep.D', E, {}, dict(D=_neg()))
    add('ehep.rho_0', E, {}, dict(rho_0=_neg()))
    add('ehep.up-neg', E, {}, dict(up=_negstrict()))
    add('ehep.up-ge-ucj', E, {}, dict(up=st.one_of(st.just(0.85 / 4), uni(0.85 / 4, 2.0))))
    add('ehep.xtilde-neg', E, {}, dict(xtilde=_neg()))
    add('ehep.xtilde-gt-xmax', E, {}, dict(xtilde=uni(10.0001, 50.0)))
    add('ehep.tmax', E, {}, dict(tmax=_neg()))
    add('ehep.gamma-must-be-3', E, {}, dict(gamma=st.one_of(st.sampled_from([1.4, 5.0 / 3.0, 2.0, 2.9]), uni(1.1, 2.99))), doc_only=True)
    P = 'ep_piston.ep_piston.EPpiston'
    add('piston.G', P, {}, dict(G=_neg()))
    add('piston.Y', P, {}, dict(Y=_neg()))
    add('piston.rho0', P, {}, dict(rho0=_neg()))
    add('piston.up', P, {}, dict(up=_negstrict()))
    add('piston.model', P, {}, dict(model=st.sampled_from(['hyper', 'Hypo', '', 'elastic'])))
    Z = 'sdrz.sdrz.SteadyDetonationReactionZone'
    add('sdrz.D', Z, {}, dict(D=_neg()))
    add('sdrz.rho_0', Z, {}, dict(rho_0=_neg()))
    add('sdrz.gamma', Z, {}, dict(gamma=_neg()))
    add('sdrz.geometry', Z, {}, dict(geometry=st.sampled_from([2, 3, 0])))
    K1 = 'kenamond.kenamond1.Kenamond1'
    add('ken1.geometry', K1, {}, dict(geometry=st.sampled_from([1, 4, 0])))
    add('ken1.D', K1, {}, dict(D=_neg()))
    add('ken1.x_d-dim', K1, {}, dict(x_d=st.sampled_from([(0.0,), (0.0, 0.0, 0.0)])))
    K2 = 'kenamond.kenamond2.Kenamond2'
    add('ken2.geometry', K2, {}, dict(geometry=st.sampled_from([1, 4, 0])))
    add('ken2.R', K2, {}, dict(R=_neg()))
    add('ken2.D1', K2, {}, dict(D1=_neg()))
    add('ken2.D2', K2, {}, dict(D2=_neg()))
    add('ken2.D1-lt-D2', K2, {}, dict(D2=uni(2.0001, 9.0)))
    add('ken2.dets-count', K2, {}, dict(dets=st.sampled_from([[10.0, 5.0, -5.0], [10.0, 5.0, -5.0, -10.0, 12.0]])))
    add('ken2.det-inside', K2, {}, dict(dets=st.sampled_from([[2.0, 5.0, -5.0, -10.0], [10.0, 5.0, -3.0, -10.0], [10.0, -1.0, -5.0, -10.0]])))
    add('ken2.t_d-count', K2, {}, dict(t_d=st.sampled_from([[2.0, 1.0, 0.0, 1.0], [2.0, 1.0, 0.0, 1.0, 2.0, 3.0]])))
    add('ken2.t_d-too-early', K2, {}, dict(t_d=st.sampled_from([[-8.0, 1.0, 0.0, 1.0, 2.0], [2.0, -2.0, 0.0, 1.0, 2.0], [2.0, 1.0, 0.0, -1.0, 2.0], [2.0, 1.0, 0.0, 1.0, -6.0]])))
    add('ken2.t_d-too-early-general', K2, {}, dict(__multi__=_ken2_early()))
    K3 = 'kenamond.kenamond3.Kenamond3'
    add('ken3.geometry', K3, {}, dict(geometry=st.sampled_from([1, 4, 0])))
    add('ken3.R', K3, {}, dict(R=_neg()))
    add('ken3.D', K3, {}, dict(D=_neg()))
    add('ken3.x_d-dim', K3, {}, dict(x_d=st.sampled_from([(5.0,), (0.0, 5.0, 0.0)])))
    add('ken3.x_d-inside', K3, {}, dict(x_d=st.sampled_from([(0.0, 3.0), (1.0, 1.0), (0.0, 0.0)])))
    DC = 'dsd.cylexpansion.CylindricalExpansion'
    add('dsdcyl.geometry', DC, {}, dict(geometry=st.sampled_from([1, 3])))
    add('dsdcyl.r_1', DC, {}, dict(r_1=_neg()))
    add('dsdcyl.r_2', DC, {}, dict(r_2=_neg()))
    add('dsdcyl.r_2-le-r_1', DC, {}, dict(r_2=uni(0.1, 1.0)))
    add('dsdcyl.D_CJ_1', DC, {}, dict(D_CJ_1=_neg()))
    add('dsdcyl.D_CJ_2', DC, {}, dict(D_CJ_2=_neg()))
    add('dsdcyl.alpha_1', DC, {}, dict(alpha_1=_negstrict()))
    add('dsdcyl.alpha_2', DC, {}, dict(alpha_2=_negstrict()))
    add('dsdcyl.r_1-below-alpha-over-D', DC, {}, dict(alpha_1=uni(0.5001, 0.95)), doc_only=True)          # r_1 = 1 <= alpha_1/D_CJ_1 = alpha_1/0.5
    add('dsdcyl.r_2-below-alpha-over-D', DC, {}, dict(alpha_2=uni(2.0001, 10.0)), doc_only=True)          # r_2 = 2 <= alpha_2/D_CJ_2
    RS = 'dsd.ratestick.RateStick'
    rb = dict(xnodes=3, ynodes=3)
    add('ratestick.geometry', RS, rb, dict(geometry=st.sampled_from([0, 3])))
    add('ratestick.R', RS, rb, dict(R=_neg()))
    add('ratestick.omega_c-low', RS, rb, dict(omega_c=_neg()))
    add('ratestick.omega_c-high', RS, rb, dict(omega_c=uni(math.pi / 2, 4.0)))
    add('ratestick.D_CJ', RS, rb, dict(D_CJ=_neg()))
    add('ratestick.alpha', RS, rb, dict(alpha=_negstrict()))
    add('ratestick.IC', RS, rb, dict(IC=st.sampled_from([0, 4])))
    add('ratestick.r_d', RS, rb, dict(r_d=uni(0.1, 1.4)))
    add('ratestick.r_d-general', RS, rb, dict(__multi__=_ratestick_rd()))
    add('ratestick.t_f', RS, rb, dict(t_f=_neg()))
    add('ratestick.xnodes', RS, dict(ynodes=3), dict(xnodes=st.sampled_from([0, -1])))
    add('ratestick.ynodes', RS, dict(xnodes=3), dict(ynodes=st.sampled_from([0, -1])))
    EA = 'dsd.explosivearc.ExplosiveArc'
    add('arc.geometry', EA, rb, dict(geometry=st.sampled_from([0, 2])))
    add('arc.r_1', EA, rb, dict(r_1=_neg()))
    add('arc.r_2', EA, rb, dict(r_2=_neg()))
    add('arc.r_2-le-r_1', EA, rb, dict(r_2=uni(0.5, 2.0)))
    add('arc.omega_in-low', EA, rb, dict(omega_in=_neg()))
    add('arc.omega_in-high', EA, rb, dict(omega_in=uni(math.pi / 2, 3.0)))
    add('arc.omega_out-high', EA, rb, dict(omega_out=uni(math.pi / 2 + 1e-6, 3.0)))
    add('arc.x_d', EA, rb, dict(x_d=st.one_of(st.just(0.0), uni(0.0, 5.0))))
    add('arc.D_CJ', EA, rb, dict(D_CJ=_neg()))
    add('arc.alpha', EA, rb, dict(alpha=_negstrict()))
    add('arc.t_f', EA, rb, dict(t_f=_neg()))
    add('arc.xnodes', EA, dict(ynodes=3), dict(xnodes=st.sampled_from([0, -1])))
    add('arc.ynodes', EA, dict(xnodes=3), dict(ynodes=st.sampled_from([0, -1])))
    B = 'blake.blake.Blake'
    add('blake.geometry', B, {}, dict(geometry=st.sampled_from([1, 2])))
    add('blake.ref_density', B, {}, dict(ref_density=_neg()))
    add('blake.cavity_radius', B, {}, dict(cavity_radius=_neg()))
    add('blake.pressure_scale', B, {}, dict(pressure_scale=_neg()))
    add('blake.blake_debug', B, {}, dict(blake_debug=st.sampled_from([1, 'yes', 0.0])))
    add('blake.one-modulus', B, {}, dict(shear_mod=st.just(25e9)))
    add('blake.three-moduli', B, dict(shear_mod=25e9, lame_mod=25e9), dict(bulk_mod=st.just(41.7e9)))
    add('blake.modulus-nonpositive', B, dict(shear_mod=25e9), dict(bulk_mod=_neg()))
    add('blake.poisson-range', B, dict(shear_mod=25e9), dict(poisson_ratio=st.one_of(st.just(0.5), st.just(-1.0), uni(0.5, 2.0), uni(-3.0, -1.0))))
    add('blake.not-positive-definite', B, dict(shear_mod=25e9), dict(bulk_mod=uni(1.01e9, 9e9), long_mod=st.just(1e9)), special='drop-first')      # K > M  =>  G < 0
    R2 = 'riemann2D_2section_steadystate.ep_riemann2D_2section_steadystate.IGEOS_Solver'
    add('base.unknown-parameter', 'noh.noh1.Noh', {}, dict(rho_zero=st.just(1.0)))
    add('base.missing-parameter', 'cog.cog11.Cog11', {}, dict(), special='expect-missing')
    add('bbnoh.geometry', 'nohblackboxeos.blackboxnoh.NohBlackBoxEos', {}, dict(geometry=_badgeom((1, 2, 3))), special='bbnoh')
    return C


CAT = catalogue()


def raise_sites():
    """every 'raise ValueError' in the solver sources: (relative file, enclosing function, line)"""
    out = []
    root = os.path.join(REPO, 'exactpack', 'solvers')
    for dp, dn, fn in os.walk(root):
        for f in fn:
            if not f.endswith('.py'):
                continue
            p = os.path.join(dp, f)
            try:
                tree = ast.parse(open(p).read())
            except SyntaxError:
                continue
            for node in ast.walk(tree):
                if isinstance(node, ast.FunctionDef):
                    for sub in ast.walk(node):
                        if isinstance(sub, ast.Raise) and sub.exc is not None:
                            e = sub.exc
                            nm = e.func.id if isinstance(e, ast.Call) and isinstance(e.func, ast.Name) else (e.id if isinstance(e, ast.Name) else '')
                            if nm == 'ValueError':
                                out.append((os.path.relpath(p, REPO), node.name, sub.lineno))
    return sorted(set(out))


@st.composite
def restriction_case(draw):
    e = draw(st.sampled_from(CAT))
    vals = draw(e['viol']['__multi__']) if '__multi__' in e['viol'] else {k: draw(v) for k, v in e['viol'].items()}
    return dict(solver=e['solver'], id=e['id'], base={k: v for k, v in e['base'].items()}, vals=vals, where=e['where'], doc_only=e['doc_only'], special=e['special'])


def check_restriction(case):
    o = Out()
    c = cat.cls_of(case['solver'])
    kw = dict(case['base'])
    kw.update(case['vals'])
    if case['special'] == 'drop-first':
        kw = dict(case['vals'])
    o.label(case['id'])
    reg = 'documented-only' if case['doc_only'] else 'coded'
    try:
        if case['special'] == 'bbnoh':
            s = cat.quiet(c, cat.make_eos(dict(cls='ideal_gas_eos', args=dict(gamma=5.0 / 3.0))), **kw)
        else:
            s = cat.quiet(c, **kw)
    except ValueError:
        o.checks += 1
        o.nontrivial = True
        return o
    except Exception as e:  # noqa
        o.fail('violated restriction raises ValueError at construction', case['id'], outcome=type(e).__name__, kwargs=kw)
        return o
    # accepted: last chance - the documentation may place the check at call time (nowhere in this catalogue)
    o.fail('violated restriction raises ValueError at construction', case['id'], outcome='accepted', kwargs={k: (v if isinstance(v, (int, float, str, bool)) else str(v)) for k, v in kw.items()})
    return o


# ---------------------------------------------------------------- catalogue audit (one deterministic case)
def run_audit(coll, n, seed, tier):
    sites = raise_sites()
    per_file = {}
    for f, fn, ln in sites:
        per_file[f] = per_file.get(f, 0) + 1
    cat_per_file = {}
    for e in CAT:
        mod = e['solver'].rsplit('.', 1)[0].replace('.', '/') + '.py'
        if e['solver'].endswith('NohBlackBoxEos'):
            mod = 'exactpack/solvers/nohblackboxeos/blackboxnoh.py'
        if e['solver'].endswith('.Blake') and e['id'].startswith('blake.') and ('modul' in e['id'] or 'poisson' in e['id'] or 'definite' in e['id']):
            mod = 'exactpack/solvers/blake/set_check_elastic_params.py'
        cat_per_file[mod] = cat_per_file.get(mod, 0) + 1
    o = Out()
    uncovered = {f: (k, cat_per_file.get(f, 0)) for f, k in per_file.items() if cat_per_file.get(f, 0) < k}
    o.info = dict(raise_ValueError_sites=len(sites), files=len(per_file), catalogue_entries=len(CAT),
                  files_with_more_sites_than_entries={f: dict(sites=a, entries=b) for f, (a, b) in sorted(uncovered.items())})
    o.label('sites=%d' % len(sites), 'catalogue=%d' % len(CAT), 'files-partly-covered=%d' % len(uncovered))
    o.true('the AST walk finds raise sites (audit is alive)', len(sites) > 100, sites=len(sites))
    # every constructor with a raise site must have at least one catalogue entry, unless listed as call-time / internal
    internal_ok = ('nohblackboxeos/solution_tools', 'radshocks', 'riemann/', 'guderley', 'rmtv', 'nohblackboxeos/equations_of_state', 'cog/', 'heat/rod1d.py', 'noh2/noh2')
    missing = [f for f in per_file if cat_per_file.get(f, 0) == 0 and not any(s in f for s in internal_ok)]
    o.true('every solver file with constructor validations has catalogue entries', not missing, missing=missing)
    o.nontrivial = True
    coll.record(dict(solver='catalogue-audit', n_sites=len(sites), n_entries=len(CAT)), o)
    o2 = Out()
    o2.label('audit-second-view')
    o2.nontrivial = True
    o2.checks = 1
    coll.record(dict(solver='catalogue-audit', view='per-file', per_file=per_file), o2)


# ---------------------------------------------------------------- out-of-domain requests
@st.composite
def ood_case(draw):
    kind = draw(st.sampled_from(['cog-t<=0', 'sedov-t<=0', 'mader-t<=0', 'suolson-t<=0', 'noh2-t>=1', 'noh2cog-t>=1', 'ken3-inside', 'piston-t>tmax', 'blake-negative-radius',
                                 'rod-bc2-unequal-flux', 'guderley-geometry', 'riemann-vacuum', 'riemann-pstar-beyond-bracket', 'ehep-beyond-tmax']))
    return dict(solver='out-of-domain:' + kind, kind=kind, u=draw(uni(0.0, 1.0)), v=draw(uni(0.0, 1.0)))


def _never_finite(o, name, fn, regime):
    """fn() must raise, or return only NaN in its physical fields"""
    try:
        sol = fn()
    except Exception as e:  # noqa
        o.label('raised-' + type(e).__name__)
        o.checks += 1
        return
    vals = np.concatenate([np.asarray(sol[k], float).ravel() for k in sol.dtype.names if not k.startswith('position') and k not in ('radius', 'xdet') and sol.dtype[k].kind == 'f'])
    o.true(name, not bool(np.any(np.isfinite(vals))), regime=regime, n_finite=int(np.sum(np.isfinite(vals))), n=int(vals.size))


def check_ood(case):
    o = Out()
    k, u, v = case['kind'], case['u'], case['v']
    o.label(k)
    x = np.array([0.3, 0.7, 1.1])
    tneg = -u if u > 0.5 else 0.0
    if k == 'cog-t<=0':
        n = [1, 2, 7, 8, 9, 11, 13, 17, 21][int(v * 8.999)]
        kw = dict(Gamma=40.0) if n == 11 else {}
        s = cat.quiet(cat.cls_of(S + 'cog.cog%d.Cog%d' % (n, n)), **kw)
        _never_finite(o, 'request at t <= 0 raises or returns NaN', lambda: cat.quiet(s, x, tneg), 'cog%d' % n)
    elif k == 'sedov-t<=0':
        s = cat.quiet(cat.cls_of(cat.SEDOV))
        _never_finite(o, 'request at t <= 0 raises or returns NaN', lambda: cat.quiet(s, x, tneg), k)
    elif k == 'mader-t<=0':
        s = cat.quiet(cat.cls_of(cat.MADER))
        _never_finite(o, 'request at t <= 0 raises or returns NaN', lambda: cat.quiet(s, x, tneg), k)
    elif k == 'suolson-t<=0':
        s = cat.quiet(cat.cls_of('exactpack.solvers.suolson.suolson.SuOlson'))
        _never_finite(o, 'request at t <= 0 raises or returns NaN', lambda: cat.quiet(s, x, tneg), k)
    elif k in ('noh2-t>=1', 'noh2cog-t>=1'):
        s = cat.quiet(cat.cls_of(cat.NOH2 + 'Noh2' if k == 'noh2-t>=1' else 'exactpack.solvers.noh2.noh2_cog.Noh2Cog'))
        t = 1.0 if u < 0.34 else 1.0 + u
        _never_finite(o, 'request at or beyond the collapse time t = 1 raises or returns no finite value', lambda: cat.quiet(s, x, t), 't==1' if t == 1.0 else 't>1')
    elif k == 'ken3-inside':
        s = cat.quiet(cat.cls_of(cat.KEN3))
        _never_finite(o, 'point inside the inert obstacle raises', lambda: cat.quiet(s, np.array([[0.5 * u * 3, 0.5 * v * 3], [4.0, 4.0]]), 0.0), k)
    elif k == 'piston-t>tmax':
        s = cat.quiet(cat.cls_of(cat.PISTON))
        cat.quiet(s, np.array([0.1, 2.0]), 0.2 / s.wv_el * (1.01 + u))        # (valid on this longer grid: the same object, used before)
        _never_finite(o, 'time after the elastic wave left the domain raises', lambda: cat.quiet(s, np.array([0.1, 0.2]), 0.2 / s.wv_el * (1.01 + u)), k)
    elif k == 'blake-negative-radius':
        import warnings
        s = cat.quiet(cat.cls_of('exactpack.solvers.blake.blake.Blake'))
        with warnings.catch_warnings():
            warnings.simplefilter('ignore')
            _never_finite(o, 'negative radius raises', lambda: cat.quiet(s, np.array([-0.1 - u, 0.2]), 1e-4), k)
    elif k == 'rod-bc2-unequal-flux':
        s = cat.quiet(cat.cls_of(cat.ROD), alpha1=0, beta1=1, gamma1=1.0, alpha2=0, beta2=1, gamma2=1.5 + u)
        _never_finite(o, 'pure-flux rod with unequal fluxes (no steady state) raises', lambda: cat.quiet(s, np.array([0.5, 1.0]), 0.1), k)
    elif k == 'guderley-geometry':
        s = cat.quiet(cat.cls_of(cat.GUDERLEY), geometry=1, gamma=3.0)
        _never_finite(o, 'planar Guderley (no converging shock) raises', lambda: cat.quiet(s, x, 0.5), k)
    elif k == 'riemann-vacuum':
        s = cat.quiet(cat.cls_of(cat.RIEMANN_IG), ul=-20.0 * (1 + u), ur=20.0 * (1 + v))
        _never_finite(o, 'vacuum-generating states (not implemented) do not return a finite solution', lambda: cat.quiet(s, np.array([0.2, 0.5, 0.8]), 0.01), k)
    elif k == 'riemann-pstar-beyond-bracket':
        s = cat.quiet(cat.cls_of(cat.RIEMANN_IG), ul=30.0 * (1 + u), ur=-30.0 * (1 + v))
        _never_finite(o, 'star pressure beyond the searched bracket does not return a finite solution', lambda: cat.quiet(s, np.array([0.2, 0.5, 0.8]), 0.001), k)
    elif k == 'ehep-beyond-tmax':
        s = cat.quiet(cat.cls_of(cat.EHEP))
        sol = cat.quiet(s, np.array([1.0, 2.0, 5.0]), 10.0 * (1.05 + u))
        vals = np.concatenate([np.asarray(sol[kk], float) for kk in ('density', 'pressure')])
        o.true('request beyond tmax returns no product state (all zero / region None)', bool(np.all(vals == 0)) and all(str(r) == 'None' for r in sol['region']), regime=k,
               regions=[str(r) for r in sol['region']])
    o.nontrivial = True
    return o


# ---------------------------------------------------------------- valid in-domain inputs are finite
@st.composite
def valid_case(draw):
    fam = draw(st.sampled_from(['cog', 'cog', 'noh', 'noh2', 'igeos', 'ehep', 'mader', 'sdrz', 'piston', 'bbnoh', 'ken', 'dsd', 'rod', 'hutchens1', 'blake', 'sedov', 'rmtv', 'suolson']))
    if fam == 'cog':
        c = draw(cogcat.cog_case())
    elif fam == 'noh':
        c = draw(cat.noh_case())
    elif fam == 'noh2':
        c = draw(cat.noh2_case())
    elif fam == 'igeos':
        c = draw(cat.riemann_case(n_min=3, n_max=8))
    elif fam == 'ehep':
        p = draw(cat.ehep_params())
        c = dict(solver=cat.EHEP, params=p, t=draw(uni(0.01, 0.99)) * p['tmax'], x=[draw(uni(-0.01, 0.99)) * p['xmax'] for _ in range(5)])
    elif fam == 'mader':
        p = draw(cat.mader_params())
        t = 6.25e-6 * draw(logu(0.2, 5.0))
        c = dict(solver=cat.MADER, params=p, t=t, x=(np.linspace(0, 1, draw(st.integers(2, 40))) * p['d_cj'] * t).tolist())
    elif fam == 'sdrz':
        p = draw(cat.sdrz_params())
        t = draw(uni(0.05, 2.5))
        c = dict(solver=cat.SDRZ, params=p, t=t, x=[p['D'] * t * draw(uni(-0.2, 1.2)) for _ in range(5)])
    elif fam == 'piston':
        p = draw(cat.piston_params())
        c = dict(solver=cat.PISTON, params=p, t=draw(logu(0.05, 0.5)), x=[draw(uni(0.0, 1.0)) for _ in range(4)] + [1.0], _tscale=True)
    elif fam == 'bbnoh':
        c = draw(cat.bbnoh_case(kinds=('ideal_gas_eos', 'noble_abel_eos', 'carnahan_starling_eos')))
    elif fam == 'ken':
        which = draw(st.sampled_from([1, 2, 3]))
        p = draw({1: cat.ken1_params, 2: cat.ken2_params, 3: cat.ken3_params}[which]())
        g = p['geometry']
        R = p.get('R', 1.0)
        pts = []
        for _ in range(4):
            d = draw(cat.unit_vec(g))
            l = R * (1 + draw(logu(1e-3, 5.0))) if which == 3 else draw(uni(0.0, 10.0))
            pts.append([q * l for q in d])
        c = dict(solver={1: cat.KEN1, 2: cat.KEN2, 3: cat.KEN3}[which], params=p, t=0.0, x=pts)
    elif fam == 'dsd':
        p = draw(cat.dsdcyl_params())
        pts = []
        for _ in range(4):
            d = draw(cat.unit_vec(2))
            l = p['r_1'] * draw(logu(0.3, 12.0))
            pts.append([d[0] * l, d[1] * l])
        c = dict(solver=cat.DSDCYL, params=p, t=0.0, x=pts)
    elif fam == 'rod':
        p, bc = draw(cat.rod_params(nsum=100))
        c = dict(solver=cat.ROD, params=p, t=draw(logu(1e-4, 10.0)) * p['L'] ** 2 / p['kappa'], x=[draw(uni(0.0, 1.0)) * p['L'] for _ in range(5)])
    elif fam == 'hutchens1':
        from .c14 import h1_case
        h = draw(h1_case())
        al = h['params']['k'] / (h['params']['rho'] * h['params']['cp'])
        c = dict(solver=h['solver'], params=h['params'], t=draw(logu(1e-4, 10.0)) * h['params']['b'] ** 2 / al, x=[0.0] + [f * h['params']['b'] for f in h['fx']])
    elif fam == 'blake':
        from .c15 import field_case
        b = draw(field_case())
        c = dict(solver=b['solver'], params=dict(b['params'], **{b['pair'][0]: b['vals'][0], b['pair'][1]: b['vals'][1]}), t=b['t'], _blake=True, fr=b['fr'], G=b['G'], nu=b['nu'])
    elif fam == 'sedov':
        c = draw(cat.sedov_params(types=('standard', 'vacuum', 'singular')))
        c['t'] = draw(logu(0.05, 10.0))
        c['x'] = [draw(uni(0.01, 1.5)) for _ in range(5)]
        c['_rel'] = True
    elif fam == 'rmtv':
        p = draw(cat.rmtv_params())
        c = dict(solver=cat.RMTV, params=p, t=0.0, x=[p.get('rf', 0.9) * draw(uni(0.02, 1.2)) for _ in range(4)])
    else:
        from .c18 import so_case, ASOL, CL, RT3
        so = draw(so_case())
        P = so['params']
        c = dict(solver=so['solver'], params=P, t=so['tau'] * P['alpha'] / (4 * ASOL * CL * P['opac']), x=[so['x'] / (RT3 * P['opac']), 0.0])
    c['fam'] = fam
    # one point in three requests lies very close to the origin / surface / piston face (a valid position like any other; the Su-Olson transforms
    # lost their bracket for x ~ 1e-6 mean free paths, repaired in 8b722ca)
    if fam in SQUEEZABLE and draw(st.integers(0, 2)) == 0:
        c['squeeze'] = draw(logu(1e-9, 1e-2))
    return c


SQUEEZABLE = ('suolson', 'noh', 'noh2', 'rod', 'hutchens1', 'sdrz', 'piston', 'sedov', 'rmtv', 'bbnoh')     # (domains that start at 0; Coggeshall shells do not)


def check_valid(case):
    import warnings
    o = Out()
    fam = case['fam']
    o.label(fam)
    with warnings.catch_warnings():
        warnings.simplefilter('ignore')
        s = cat.make_solver(case)
        x = np.array(case.get('x', [1.0]), float)
        t = case['t']
        if case.get('squeeze') and x.ndim == 1 and x.size > 1:
            nz = [i for i in range(x.size) if x[i] != 0.0 and i != int(np.argmax(np.abs(x)))]      # (the largest position stays: the piston takes it as xmax)
            j = nz[0] if nz else 0
            ref = float(x[j])
            x[j] *= case['squeeze']
            # ... and a ladder with the same mantissa in every half decade from 1e-2 to 1e-11.5 of that position (appended: the rest of the request stays)
            mant = case['squeeze'] / 10.0 ** math.floor(math.log10(case['squeeze']))
            x = np.concatenate([x, [ref * mant * 10.0 ** (-0.5 * k) for k in range(4, 24)]])      # (half-decade steps)
            o.label('point within 1e-2 .. 1e-9 of the origin')
        if fam == 'piston':
            if not (s.wv_pl < s.wv_el):
                return o
            t = min(t, 0.9 * 1.0 / s.wv_el)
        if fam == 'blake':
            cl = math.sqrt(float(s.long_mod) / case['params']['ref_density'])
            a = case['params']['cavity_radius']
            # ... and the undisturbed far field (any r >= a is a valid request: zero displacement ahead of the front)
            x = np.array([a] + [a + f * cl * t for f in case['fr']] + [a + m * (cl * t + a) for m in (10.0, 1e3, 1e5)])
        if fam == 'sedov':
            cat.quiet(s, np.array([1.0]), t)
            x = x * float(s.r2)
        sol = cat.quiet(s, x, t)
    bad = {}
    for k in sol.dtype.names:
        if sol.dtype[k].kind != 'f':
            continue
        v = np.asarray(sol[k], float)
        if not np.all(np.isfinite(v)):
            bad[k] = int(np.sum(~np.isfinite(v)))
    o.true('valid in-domain request returns no NaN / inf', not bad, regime=fam, fields=bad)
    o.nontrivial = True
    return o


OBLIGATIONS = [
    Obligation('documented-restrictions', restriction_case(), check_restriction, quick=1500, thorough=40000),
    Obligation('restriction-catalogue-audit', runner=run_audit, quick=1, thorough=1, max_shards=1),
    Obligation('out-of-domain-requests', ood_case(), check_ood, quick=300, thorough=6000),
    Obligation('valid-requests-are-finite', valid_case(), check_valid, quick=900, thorough=40000),
]
# coverage-guided supplement (atheris / libFuzzer over the same strategy and oracle; see vp/fuzz.py)
OBLIGATIONS.append(fuzzed([o for o in OBLIGATIONS if o.name == 'documented-restrictions'][0], quick=3000, thorough=100000, modules=CHEAP_MODULES, min_per_shard=1500))
