"""C02 - Rankine-Hugoniot relations at every discontinuity."""
import math
import numpy as np
from hypothesis import strategies as st, assume

from ..fuzz import fuzzed
from ..core import Obligation, Out
from .. import cat, cogcat, rtools
from ..strat import uni, logu, pos, gamma_gt1, geometry

META = dict(
    technique='Hypothesis-generated parameters; discontinuities located by bisection on the public call at t and t(1+-1e-4); jump conditions as oracle; coverage-guided supplement: the same strategy and oracle driven by atheris/libFuzzer through Hypothesis fuzz_one_input (obligations *-atheris)',
    rule='cases = (problem with a discontinuity, admissible parameters, time); the discontinuity is located from the returned fields by bisection '
         '(to 2^-46 of the bracket) at three times, its speed is the centred difference, states are read at the bracket ends; oracle = mass, momentum, '
         'total-energy flux differences in the frame of the discontinuity (total stress p - s_dev for elastic-plastic waves; [p]=[u]=0 at contacts; '
         'mass + momentum + sonic condition at CJ fronts; flux constancy along the steady reaction zone; [T]=0 and mass/momentum with the speed '
         'eliminated for RMTV); non-trivial = non-default parameters and a genuine jump; distinct = case hash',
    assumptions=['interpolating solvers: states read 2 table cells away from the jump (Sedov) / from the solver-reported star states across '
                 'the interpolation cell (GenEOS), tolerance 2e-3 / 1e-4',
                 'detonation fronts: heat release is not a parameter, the energy jump is replaced by the CJ sonic condition D = u + c'])


def fields_of(solver, names=('density', 'velocity', 'pressure', 'specific_internal_energy'), extra=None):
    def f(x, t):
        xx = np.asarray(x, float)
        if extra is not None:
            xx = np.concatenate([xx, [extra]])
        sol = cat.quiet(solver, xx, t)
        F = np.vstack([np.asarray(sol[k], float) for k in names])
        return F[:, :-1] if extra is not None else F
    return f


def bisect_jump(f, t, a, b, iters=46):
    """f(x,t)->(nf, N).  Returns xl, xr, Fl, Fr bracketing the largest discontinuity in [a,b]."""
    F = f(np.array([a, b]), t)
    Fl, Fr = F[:, 0], F[:, 1]
    rng = np.maximum(np.abs(Fl), np.abs(Fr))
    rng = np.where(rng > 0, rng, 1.0)
    for _ in range(iters):
        m = 0.5 * (a + b)
        Fm = f(np.array([m]), t)[:, 0]
        dl = np.max(np.abs(Fm - Fl) / rng)
        dr = np.max(np.abs(Fr - Fm) / rng)
        if dl >= dr:
            b, Fr = m, Fm
        else:
            a, Fl = m, Fm
    return a, b, Fl, Fr


def msect_jump(f, t, a, b, n=32, rounds=7):
    """multi-section variant of bisect_jump for solvers whose cost is per call, not per point"""
    for _ in range(rounds):
        x = np.linspace(a, b, n + 2)
        F = f(x, t)
        rng = np.maximum(np.max(np.abs(F), axis=1), 1e-300)
        d = np.max(np.abs(np.diff(F, axis=1)) / rng[:, None], axis=0)
        i = int(np.argmax(d))
        a, b = x[i], x[i + 1]
        Fl, Fr = F[:, i], F[:, i + 1]
    return a, b, Fl, Fr


def rh(o, L, R, D, tol, regime, sL=0.0, sR=0.0, what='shock', energy=True):
    """L, R = (rho, u, p, e); s = deviatoric stress (total stress P = p - s)"""
    r1, u1, p1, e1 = L
    r2, u2, p2, e2 = R
    P1, P2 = p1 - sL, p2 - sR
    m1, m2 = r1 * (u1 - D), r2 * (u2 - D)
    cref = max(abs(u1 - D), abs(u2 - D), math.sqrt(abs(P1) / r1), math.sqrt(abs(P2) / r2), 1e-300)
    rref = max(r1, r2)
    o.close('%s: mass flux continuous' % what, m1, m2, 0.0, atol=tol * rref * cref, regime=regime)
    o.close('%s: momentum flux continuous' % what, m1 * u1 + P1, m2 * u2 + P2, 0.0, atol=tol * rref * cref * (cref + abs(D) + abs(u1) + abs(u2)), regime=regime)
    if energy:
        E1 = m1 * (e1 + 0.5 * u1 * u1) + P1 * u1
        E2 = m2 * (e2 + 0.5 * u2 * u2) + P2 * u2
        vref = cref + abs(D) + abs(u1) + abs(u2)
        o.close('%s: total energy flux continuous' % what, E1, E2, 0.0, atol=tol * rref * cref * vref * vref, regime=regime)


def speed(f, t, a, b, rel=1e-4, scale_bracket=None, delta=1e-9):
    """locate the jump at t(1-rel), t, t(1+rel); returns (x_s, D, Fl, Fr)"""
    out = []
    for tt in (t * (1 - rel), t, t * (1 + rel)):
        aa, bb = (a, b) if scale_bracket is None else scale_bracket(tt)
        out.append(bisect_jump(f, tt, aa, bb))
    D = (0.5 * (out[2][0] + out[2][1]) - 0.5 * (out[0][0] + out[0][1])) / (2 * rel * t)
    xl, xr, Fl, Fr = out[1]
    xs = 0.5 * (xl + xr)
    # read the one-sided states a relative 1e-9 away from the located jump rather than on the last pair of
    # floats (the EP piston returns the undisturbed state at the single float x == wave position)
    F = f(np.array([xs - delta * abs(xs), xs + delta * abs(xs)]), t)
    return xs, D, F[:, 0], F[:, 1]


# ------------------------------------------------------------------ Noh / Cog19 / Cog20 / Cog21
@st.composite
def noh_like_case(draw):
    which = draw(st.sampled_from(['noh', 'cog19', 'cog20', 'cog21']))
    if which == 'noh':
        c = draw(cat.noh_case(n_min=1, n_max=1))
        c['which'] = which
        return c
    n = int(which[3:])
    geom = draw(st.sampled_from(list(cogcat.GEOMS[n])))
    p = draw(cogcat.cog_params(n, geom))
    t = draw(cogcat.cog_time(n, p))
    assume(t > 0)
    params = dict(p)
    if n != 21:
        params['geometry'] = geom
    return dict(solver=cogcat.path(n), params=params, t=t, which=which, geometry=geom, cog=n,
                shock=cogcat.shock_radius(n, p, geom, t))


def check_noh_like(case):
    o = Out()
    s = cat.make_solver(case)
    t = case['t']
    rs = case['shock']
    if rs is None or rs <= 0:
        o.label('no-shock-skip')
        return o
    f = fields_of(s)
    o.label(case['which'], 'geom%d' % case['geometry'])

    def bracket(tt):
        r = rs * tt / t if case['which'] != 'cog21' else rs * (t / tt) ** 2
        if case['which'] == 'cog20':
            P = case['params']
            r = cogcat.shock_radius(20, P, case['geometry'], tt)
        return 0.9 * r, 1.13 * r
    xs, D, Fl, Fr = speed(f, t, None, None, scale_bracket=bracket)
    rh(o, Fl, Fr, D, 1e-6, case['which'])
    o.nontrivial = True
    return o


# ------------------------------------------------------------------ black-box Noh
def check_bbnoh(case):
    o = Out()
    s = cat.make_solver(case)
    t = case['t']
    cat.quiet(s, np.array([1.0]), t)
    D0 = float(s.shock_speed)
    f = fields_of(s)
    o.label(case['eos']['cls'], 'sym%d' % case['symmetry'])
    xs, D, Fl, Fr = speed(f, t, None, None, scale_bracket=lambda tt: (0.9 * D0 * tt, 1.13 * D0 * tt))
    o.true('shock speed positive', D > 0, D=D)
    rh(o, Fl, Fr, D, 1e-6, case['eos']['cls'])
    # energy consistency with the supplied EOS object on both sides (jump uses e from the solver)
    o.nontrivial = True
    return o


# ------------------------------------------------------------------ Sedov
@st.composite
def sedov_case(draw):
    c = draw(cat.sedov_params(types=('standard', 'standard', 'vacuum'), wrappers=False))
    c['t'] = draw(logu(0.2, 3.0))
    return c


def check_sedov(case):
    o = Out()
    s = cat.make_solver(case)
    t = case['t']
    o.label('geom%d' % case['geometry'], case['kind'])
    eps = 0.3
    locs = []
    for tt in (t * (1 - eps), t, t * (1 + eps)):
        cat.quiet(s, np.array([1.0]), tt)
        r2 = float(s.r2)
        far = 1.5 * r2
        f = fields_of(s, extra=far)
        xl, xr, Fl, Fr = bisect_jump(f, tt, 0.985 * r2, 1.021 * r2, iters=24)
        locs.append(0.5 * (xl + xr))
    cell = 1.5 * r2 / 3000.0
    # local similarity exponent and speed from where the fields place the shock at the three times
    a_fit = math.log(locs[2] / locs[0]) / math.log((1 + eps) / (1 - eps))
    o.close('shock trajectory exponent 2/(k+2-omega)', a_fit, 2.0 / (case['geometry'] + 2.0 - case['omega']), 1e-2, regime=case['kind'])
    xs = locs[1]
    D = a_fit * xs / t
    # states: align the solver's internal grid (linspace(0, max(r), 3001)) so that node 2000 sits a relative 1e-9 inside
    # the shock the fields show; node 2000 then carries the exact post-shock state, node 2001 the undisturbed state
    cat.quiet(s, np.array([1.0]), t)
    r2 = float(s.r2)
    o.close('shock position shown by the fields vs the reported jump location', xs, r2, 0.0, atol=1.2 * 1.5 * r2 / 3000.0, regime=case['kind'])
    far = 1.5 * r2 * (1 - 1e-9)
    node = far / 3000.0
    f = fields_of(s, extra=far)
    F = f(np.array([2000 * node, 2001 * node, 2002 * node]), t)
    inner = F[:, 0]
    rho_ahead = case['rho0'] * r2 ** (-case['omega'])          # the undisturbed profile (checked below) at the shock
    outer = np.array([rho_ahead, 0.0, 0.0, 0.0])
    rh(o, inner, outer, D, 1.5e-2, case['kind'])
    g = case['gamma']
    # the node value comes from the solver's fminbound root find (vtol = 1e-8 in the similarity variable): measured 3.4e-6 at gamma = 1.05, 1.7e-6 at 1.1, < 1e-6 above 1.2
    o.close('strong shock: density ratio (g+1)/(g-1)', inner[0] / rho_ahead, (g + 1) / (g - 1), 5e-5, regime=case['kind'])
    x_out = np.array([2001 * node, 2002 * node])
    o.close('ahead of the shock: undisturbed density rho0 r^-omega', F[0, 1:], case['rho0'] * x_out ** (-case['omega']), 1e-9, regime=case['kind'])
    o.close('ahead of the shock: at rest, cold', F[1:3, 1:].ravel(), 0.0, 0.0, atol=0.0, regime=case['kind'])
    o.nontrivial = True
    return o


# ------------------------------------------------------------------ Riemann (ideal gas, analytic solver)
def check_riemann_ig(case):
    o = Out()
    P = case['params']
    s = cat.make_solver(case)
    t = case['t']
    half = case['span'] * 1.15
    a, b = P['xd0'] - half, P['xd0'] + half
    o.label(case['pattern'], 'ul!=ur' if P['ul'] != P['ur'] else 'ul==ur', 'gl!=gr' if P['gl'] != P['gr'] else 'gl==gr')
    locs = []
    rel = 1e-3
    for tt in (t * (1 - rel), t, t * (1 + rel)):
        sc = tt / t
        x, F, jumps = rtools.locate_jumps(s, tt, P['xd0'] - half * sc, P['xd0'] + half * sc, n=1500)
        locs.append(jumps)
    if not (len(locs[0]) == len(locs[1]) == len(locs[2])):
        o.label('jump-count-differs-skip')
        return o
    # (a shock whose pressure ratio differs from 1 by less than the jump detector's threshold is not a visible discontinuity:
    #  e.g. pl = pr (1 + 2e-16), ul = ur (1 + 1e-16) is formally 'SCS' with zero-strength shocks)
    ps_ = case['pstar']
    want = 1 + sum(1 for side, p_side in (('l', P['pl']), ('r', P['pr']))
                   if case['pattern'][0 if side == 'l' else -1] == 'S' and abs(ps_ / p_side - 1) > 1e-2)
    want_max = case['pattern'].count('S') + 1
    for j0, j1, j2 in zip(*locs):
        D = (0.5 * (j2['xl'] + j2['xr']) - 0.5 * (j0['xl'] + j0['xr'])) / (2 * rel * t)
        L = (j1['Fl'][0], j1['Fl'][1], j1['Fl'][2], j1['Fl'][3])
        R = (j1['Fr'][0], j1['Fr'][1], j1['Fr'][2], j1['Fr'][3])
        # a contact has [p] = [u] = 0 relative to its density/energy jump (a weak shock has [p]/p ~ gamma [rho]/rho)
        cs_ = math.sqrt(L[2] / L[0])
        big = max(abs(L[0] - R[0]) / max(L[0], R[0]), abs(L[3] - R[3]) / max(L[3], R[3]))
        contact = abs(L[2] - R[2]) / max(L[2], R[2]) <= 1e-3 * big and abs(L[1] - R[1]) / cs_ <= 1e-3 * big
        if contact:
            cs = math.sqrt(L[2] / L[0])
            o.close('contact: moves with the fluid', D, L[1], 0.0, atol=1e-5 * (cs + abs(D)), regime=case['pattern'])
        rh(o, L, R, D, 1e-5, case['pattern'], what='contact' if contact else 'shock')
    o.info['jumps'] = len(locs[1])
    # the number of discontinuities found must match the pattern (contact may be invisible when densities and gammas coincide)
    o.true('number of discontinuities matches the wave pattern', want - 1 <= len(locs[1]) <= want_max, found=len(locs[1]), want=want, regime=case['pattern'])
    o.nontrivial = P['ul'] != P['ur'] or P['gl'] != P['gr']
    return o


def _gen_jumps(o, s, case, regime, tol):
    """general-EOS solver: user values are interpolants on the internal grid, so each jump is read from the returned
    fields three internal cells on either side of the wave position (star regions and outer states are constant);
    the wave speed is the solver's public Vregs entry (positions X = xd0 + t V are where the fields change)"""
    P = case['params']
    t = case['t']
    V = np.asarray(s.Vregs, float)
    typ = str(s.soln_type)
    grid = np.asarray(s.x, float)
    cell = (grid.max() - grid.min()) / P['num_x_pts']
    X = P['xd0'] + t * V
    f = fields_of(s)
    waves = []
    i = 0
    if typ[0] == 'S':
        waves.append(('left shock', 0))
        ic = 1
    else:
        ic = 2
    waves.append(('contact', ic))
    if typ[-1] == 'S':
        waves.append(('right shock', len(V) - 1))
    for name, j in waves:
        lo = X[j - 1] if j > 0 else -np.inf
        hi = X[j + 1] if j + 1 < len(X) else np.inf
        if X[j] - lo < 8 * cell or hi - X[j] < 8 * cell:
            o.label('narrow-region-skip')
            continue
        F = f(np.array([X[j] - 3.5 * cell, X[j] + 3.5 * cell]), t)
        L, R = F[:, 0], F[:, 1]
        if name == 'contact':
            cs = math.sqrt(abs(L[2]) / L[0])
            o.close('contact: moves with the fluid', V[j], L[1], 0.0, atol=tol * (cs + abs(V[j])), regime=regime)
        rh(o, L, R, V[j], tol, regime, what=name if name == 'contact' else 'shock')


def check_riemann_gen(case):
    o = Out()
    P = case['params']
    # (the same left/right states have just been solved with another material model - a JWL explosive - in this process)
    try:
        cat.run(dict(case, params=dict(P, problem='JWL', A=8.545, B=0.205, R1=4.6, R2=1.35, r0=1.84, e0=0.0)), x=np.array([P['xd0']]))
    except Exception:  # noqa  (the JWL problem itself may have no solution for these states)
        pass
    s = cat.make_solver(case)
    cat.quiet(s, np.array([P['xd0']]), case['t'])
    o.label(str(s.soln_type), 'ul!=ur' if P['ul'] != P['ur'] else 'ul==ur')
    if abs(case['pstar'] / P['pl'] - 1) < 1e-3 and abs(case['pstar'] / P['pr'] - 1) < 1e-3:
        # acoustic limit: both waves weaker than the solver's P-U table resolution (its u* differs by ~1e-3 c between the
        # left and the right curve there); nothing to measure a jump against
        o.label('acoustic-limit-skip')
        return o
    _gen_jumps(o, s, case, str(s.soln_type), 2e-3)
    o.nontrivial = P['ul'] != P['ur'] or P['gl'] != P['gr']
    return o


@st.composite
def jwl_case(draw):
    base = dict(draw(st.sampled_from([cat.JWL_SHYUE, cat.JWL_LEE])))
    for k in ('rl', 'pl', 'rr', 'pr'):
        base[k] *= draw(uni(0.85, 1.2))
    p = dict(base, xmin=0.0, xd0=50.0, xmax=100.0, problem='JWL', num_int_pts=1001, num_x_pts=2001)
    return dict(solver=cat.RIEMANN_GEN, params=p, t=draw(uni(4.0, 15.0)))


def check_riemann_jwl(case):
    o = Out()
    P = case['params']
    s = cat.make_solver(case)
    cat.quiet(s, np.array([P['xd0']]), case['t'])
    o.label('JWL-' + str(s.soln_type))
    _gen_jumps(o, s, case, 'JWL-' + str(s.soln_type), 2e-3)
    o.nontrivial = True
    return o


# ------------------------------------------------------------------ elastic-plastic piston
@st.composite
def piston_case(draw):
    return dict(solver=cat.PISTON, params=draw(cat.piston_params()), t=draw(logu(0.05, 5.0)))


def check_piston(case):
    o = Out()
    P = case['params']
    s = cat.make_solver(case)
    if not (s.wv_pl < s.wv_el):
        o.label('overdriven-skip')
        return o
    t = case['t']
    names = ('density', 'velocity', 'pressure', 'specific_internal_energy', 'deviatoric stress')
    xmax = 1.3 * s.wv_el * t * 1.001

    def f(x, tt):
        sol = cat.quiet(s, np.concatenate([np.asarray(x, float), [xmax]]), tt)
        return np.vstack([np.asarray(sol[k], float) for k in names])[:, :-1]
    o.label(P['model'])
    for name, w in (('plastic wave', s.wv_pl), ('elastic wave', s.wv_el)):
        gap = 0.45 * (s.wv_el - s.wv_pl)
        xs, D, Fl, Fr = speed(f, t, None, None, scale_bracket=lambda tt, w=w: ((w - 0.9 * gap) * tt, (w + 1.07 * gap) * tt))
        rh(o, Fl[:4], Fr[:4], D, 1e-6, P['model'] + ' ' + name, sL=Fl[4], sR=Fr[4], what=name)
    o.nontrivial = True
    return o


# ------------------------------------------------------------------ steady detonation reaction zone
@st.composite
def sdrz_case(draw):
    return dict(solver=cat.SDRZ, params=draw(cat.sdrz_params()), t=draw(st.one_of(uni(0.2, 1.0), uni(1.0, 2.0))),
                fr=draw(st.lists(uni(0.01, 1.0), min_size=3, max_size=10)))


def check_sdrz(case):
    o = Out()
    P = case['params']
    s = cat.make_solver(case)
    t = case['t']
    D, rho0 = P['D'], P['rho_0']
    # depth of the reaction zone + following flow that exists at time t
    tab = s.run_tvec(np.linspace(0, t, 201))
    depth = float(np.max(tab['position_relative']))
    x = D * t - depth * np.asarray(case['fr'])
    sol = cat.run(case, solver=s, x=x)
    rho, u, p = (np.asarray(sol[k], float) for k in ('density', 'velocity', 'pressure'))
    o.label('t>1' if t > 1 else 't<=1')
    o.close('reaction zone: mass flux rho (D-u) = rho0 D', rho * (D - u), rho0 * D, 1e-3, scale=rho0 * D)
    o.close('reaction zone: momentum flux p + rho (D-u)^2 = rho0 D^2', p + rho * (D - u) ** 2, rho0 * D * D, 1e-3, scale=rho0 * D * D)
    # von Neumann spike immediately behind the front: strong-shock state of the unreacted gas
    g = P['gamma']
    vn = cat.run(case, solver=s, x=np.array([D * t * (1 - 1e-12)]))
    o.close('front: von Neumann density (g+1)/(g-1) rho0', vn['density'][0], rho0 * (g + 1) / (g - 1), 5e-3)
    o.close('front: von Neumann pressure 2 rho0 D^2/(g+1)', vn['pressure'][0], 2 * rho0 * D * D / (g + 1), 5e-3)
    o.nontrivial = True
    return o


# ------------------------------------------------------------------ EHEP detonation front, Mader CJ state
@st.composite
def ehep_front_case(draw):
    return dict(solver=cat.EHEP, params=draw(cat.ehep_params()), f=draw(uni(0.05, 0.95)))


def check_ehep_front(case):
    o = Out()
    P = case['params']
    s = cat.make_solver(case)
    D, rho0 = P['D'], P['rho_0']
    t = case['f'] * P['xtilde'] / D           # front still inside the HE
    names = ('density', 'velocity', 'pressure', 'specific_internal_energy', 'sound_speed')
    f = fields_of(s, names=names)
    # Region membership is decided by matplotlib's polygon test, which is ragged over a sliver of relative width
    # up to ~1e-4 around the characteristic boundaries (wider when D is far from O(1)): the front is located
    # to that accuracy and the one-sided states are read 3e-4 away from it (region-I fields are smooth there)
    xs, Dm, Fl, Fr = speed(f, t, None, None, scale_bracket=lambda tt: (0.9 * D * tt, 1.13 * D * tt), rel=2e-2, delta=3e-4)
    o.close('front moves with the detonation velocity', Dm, D, 1e-3)
    rh(o, Fl[:4], Fr[:4], Dm, 2e-3, 'detonation front', energy=False, what='detonation front')
    o.close('CJ sonic condition D = u + c behind the front', Fl[1] + Fl[4], D, 2e-3)
    o.close('undisturbed HE ahead of the front', [Fr[0], Fr[1], Fr[2]], [rho0, 0.0, 0.0], 1e-12, atol=0.0)
    o.nontrivial = True
    return o


@st.composite
def mader_front_case(draw):
    return dict(solver=cat.MADER, params=draw(cat.mader_params()), t=6.25e-6 * draw(logu(0.2, 5.0)), n=draw(st.integers(200, 2000)))


def check_mader_front(case):
    o = Out()
    P = case['params']
    g, D, pcj = P['gamma'], P['d_cj'], P['p_cj']
    t = case['t']
    n = case['n']
    # In this solver the 'position' axis starts at the detonation front (xdet = D t - position is the documented
    # distance from the piston), so the CJ state is the value at position 0; values are cell averages of width
    # dx = (x[-1]-x[0])/N centred on the point: agreement to O((dx/L)^2)
    L = D * t
    x = np.linspace(0.0, 0.8 * L, n)
    dxg = (x[-1] - x[0]) / len(x)
    sol = cat.run(case, x=x)
    u, p, c, rho = (float(np.asarray(sol[k], float)[0]) for k in ('velocity', 'pressure', 'sound_speed', 'density'))
    tol = 20.0 * (dxg / L) ** 2 + 1e-9
    o.close('CJ sonic condition D = u + c at the front', u + c, D, tol)
    o.close('front pressure is the CJ pressure', p, pcj, tol)
    o.close('mass + momentum across the front: p = rho (D - u) u', p, rho * (D - u) * u, tol)
    o.close('c^2 = gamma p / rho at the front', c * c * rho, g * p, tol)
    o.nontrivial = True
    return o


# ------------------------------------------------------------------ Guderley converging shock (strong-shock limit)
FACTOR_C = 0.750024322


@st.composite
def guderley_case(draw):
    return dict(solver=cat.GUDERLEY, params=draw(cat.guderley_params()), t=draw(uni(0.15, 0.6)))


def _guderley_shock(case):
    s = cat.make_solver(case)
    f = fields_of(s)
    t = case['t']
    from exactpack.solvers.guderley.eexp import eexp
    P = case['params']
    # bracket from a coarse scan of the public fields
    r_all = np.linspace(0.02, 1.2, 80)
    rho = f(r_all, t)[0]
    j = int(np.argmax(np.abs(np.diff(rho))))
    a, b = r_all[max(j - 1, 0)], r_all[min(j + 2, len(r_all) - 1)]
    dt = 2e-3
    loc = [msect_jump(f, tt, a * 0.9, b * 1.1) for tt in (t - dt, t, t + dt)]
    D = (0.5 * (loc[2][0] + loc[2][1]) - 0.5 * (loc[0][0] + loc[0][1])) / (2 * dt)
    return s, f, loc[1], D


def check_guderley(case):
    """jump conditions with the shock speed measured in the PUBLIC time coordinate"""
    o = Out()
    s, f, (xl, xr, Fl, Fr), D = _guderley_shock(case)
    P = case['params']
    o.label('geom%d' % P['geometry'], 'gamma%g' % P['gamma'])
    rh(o, Fl, Fr, D, 2e-4, 'converging shock')
    o.nontrivial = True
    return o


def check_guderley_lazarus(case):
    """the same with the shock speed converted to Lazarus time (dr/dt_L = 0.750024322 dr/dt), see KF-C02-guderley-time-units"""
    o = Out()
    s, f, (xl, xr, Fl, Fr), D = _guderley_shock(case)
    P = case['params']
    o.label('geom%d' % P['geometry'], 'gamma%g' % P['gamma'])
    rh(o, Fl, Fr, D * FACTOR_C, 2e-4, 'converging shock [Lazarus time]', what='shock [Lazarus time]')
    g = P['gamma']
    o.close('strong-shock density ratio (g+1)/(g-1)', Fr[0] / Fl[0], (g + 1) / (g - 1), 1e-6)
    o.nontrivial = True
    return o


# ------------------------------------------------------------------ RMTV isothermal shock
@st.composite
def rmtv_case(draw):
    return dict(solver=cat.RMTV, params=draw(cat.rmtv_params()))


def check_rmtv(case):
    o = Out()
    P = case['params']
    s = cat.make_solver(case)
    rf = P.get('rf', 0.9)
    names = ('density', 'velocity', 'pressure', 'temperature')
    f = fields_of(s, names=names)
    # shock at xi = xis = 1 i.e. r_s = rf / xif
    c = cat.cls_of(case['solver'])
    rs = rf * c.xis / c.xif
    xl, xr, Fl, Fr = bisect_jump(f, 0.0, 0.9 * rs, 1.1 * rs, iters=36)
    o.close('shock at the documented similarity position xi_s', 0.5 * (xl + xr), rs, 1e-6)
    o.close('isothermal shock: temperature continuous', Fl[3], Fr[3], 1e-5)
    # eliminate the shock speed between mass and momentum: D from mass, then momentum must close
    r1, u1, p1 = Fl[0], Fl[1], Fl[2]
    r2, u2, p2 = Fr[0], Fr[1], Fr[2]
    o.true('genuine density jump', abs(r1 - r2) > 1e-3 * max(r1, r2))
    D = (r1 * u1 - r2 * u2) / (r1 - r2)
    o.close('momentum jump with the speed from the mass jump', r1 * (u1 - D) * u1 + p1, r2 * (u2 - D) * u2 + p2, 2e-5,
            scale=max(p1, p2) + max(r1, r2) * (abs(D) + abs(u1) + abs(u2)) ** 2)
    # the speed must also be the similarity speed of the front: D = alpha r_s / t  (time from the solver's own scaling)
    o.nontrivial = bool(P)
    return o


@st.composite
def rgen_case(draw):
    return draw(cat.riemann_case(solver='gen', n_min=1, n_max=1))


OBLIGATIONS = [
    Obligation('noh-cog-shocks', noh_like_case(), check_noh_like, quick=400, thorough=15000),
    Obligation('bbnoh-shock', cat.bbnoh_case(n_min=1, n_max=1), check_bbnoh, quick=200, thorough=8000),
    Obligation('sedov-shock', sedov_case(), check_sedov, quick=12, thorough=200, min_per_shard=1),
    Obligation('igeos-jumps', cat.riemann_case(n_min=1, n_max=1), check_riemann_ig, quick=160, thorough=6000, min_per_shard=4),
    Obligation('geneos-jumps', rgen_case(), check_riemann_gen, quick=32, thorough=600, min_per_shard=1, expected_exc=(ValueError,)),
    Obligation('geneos-jwl-jumps', jwl_case(), check_riemann_jwl, quick=16, thorough=200, min_per_shard=1),
    Obligation('piston-waves', piston_case(), check_piston, quick=200, thorough=8000),
    Obligation('sdrz-zone', sdrz_case(), check_sdrz, quick=200, thorough=8000),
    Obligation('ehep-front', ehep_front_case(), check_ehep_front, quick=100, thorough=3000),
    Obligation('mader-cj', mader_front_case(), check_mader_front, quick=100, thorough=3000),
    Obligation('guderley-shock', guderley_case(), check_guderley, quick=6, thorough=24, min_per_shard=1),
    Obligation('guderley-shock-lazarus-time', guderley_case(), check_guderley_lazarus, quick=6, thorough=24, min_per_shard=1),
    Obligation('rmtv-shock', rmtv_case(), check_rmtv, quick=16, thorough=200, min_per_shard=1),
]
for _o in OBLIGATIONS:
    if _o.name in ('sedov-shock', 'geneos-jumps', 'geneos-jwl-jumps', 'guderley-shock', 'guderley-shock-lazarus-time', 'rmtv-shock'):
        _o.cost = 50.0
# coverage-guided supplement (atheris / libFuzzer over the same strategy and oracle; see vp/fuzz.py)
OBLIGATIONS.append(fuzzed([o for o in OBLIGATIONS if o.name == 'igeos-jumps'][0], quick=0, thorough=8000, modules=('exactpack.solvers.riemann',), min_per_shard=1000))
