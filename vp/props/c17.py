"""C17 - solutions are admissible: positive, compressive shocks, monotone fans, bounded transition values."""
import math
import numpy as np
from hypothesis import strategies as st, assume

from ..fuzz import fuzzed
from ..core import Obligation, Out
from .. import cat, rtools
from ..strat import uni, logu, pos
from .c18 import uv, ASOL, CL, RT3, SUO

META = dict(
    technique='Hypothesis-generated parameters and fine ordered point sequences; sign / ordering / monotonicity / boundedness predicates on the returned fields; coverage-guided supplement: the same strategy and oracle driven by atheris/libFuzzer through Hypothesis fuzz_one_input (obligations *-atheris)',
    rule='cases = (solver, admissible parameters, time, an ordered fine sequence of points spanning every region; Mader grids placed so that a cell straddles the tail of the '
         'Taylor wave with every offset); oracle = rho > 0 (exactly 0 only in documented vacuum), p, e, T >= 0, sound speed real; shocks compressive in the crossing direction; '
         'p, rho, u monotone inside each fan; values in a cell/point between two constant states lie between them; Su-Olson 0 <= v <= u <= 1 and monotone in x and t; '
         'radiative-shock radiation temperature monotone between the far-field values and material temperature >= upstream; non-trivial = non-default parameters; distinct = case hash',
    assumptions=['monotonicity is asserted with a relative slack of 1e-9 of the field range (closed forms) or the table resolution (interpolating solvers)'])


def mono(o, name, v, direction, slack, regime=''):
    """direction +1: non-decreasing along the sequence, -1: non-increasing"""
    v = np.asarray(v, float)
    d = np.diff(v) * direction
    rng = max(np.max(np.abs(v)), 1e-300)
    bad = d < -slack * rng
    o.checks += int(d.size)
    if bad.any():
        i = int(np.argmin(d))
        o.fail(name, regime, index=i, values=[float(v[max(i - 1, 0)]), float(v[i]), float(v[min(i + 1, len(v) - 1)])], n_bad=int(bad.sum()))
        return False
    return True


def positive(o, sol, names_pos, names_nonneg, regime='', allow_zero_density=False):
    for k in names_pos:
        v = np.asarray(sol[k], float)
        ok = np.all(np.isfinite(v)) and (np.all(v >= 0) if allow_zero_density else np.all(v > 0))
        o.true('%s > 0%s' % (k, ' (0 only in vacuum)' if allow_zero_density else ''), bool(ok), regime=regime, min=float(np.nanmin(v)) if v.size else 0.0)
    for k in names_nonneg:
        v = np.asarray(sol[k], float)
        o.true('%s >= 0 and finite' % k, bool(np.all(np.isfinite(v)) and np.all(v >= 0)), regime=regime, min=float(np.nanmin(v)) if v.size else 0.0)


GASN = ('pressure', 'specific_internal_energy')


# ------------------------------------------------------------------ Noh, Sedov, Guderley
def check_noh(case):
    o = Out()
    rs = case['shock']
    x = rs * np.exp(np.linspace(math.log(0.02), math.log(30.0), 160))
    sol = cat.run(case, x=x)
    positive(o, sol, ('density',), GASN)
    o.true('shock compressive: density and pressure rise into the shocked gas', bool(sol['density'][0] > np.max(sol['density'][x > rs])) and bool(sol['pressure'][0] > 0))
    o.label('geom%d' % case['geometry'])
    o.nontrivial = abs(case['gamma'] - 5 / 3) > 1e-9
    return o


@st.composite
def sedov_case(draw):
    c = draw(cat.sedov_params(types=('standard', 'standard', 'vacuum')))
    c['t'] = draw(logu(0.1, 5.0))
    return c


def check_sedov(case):
    o = Out()
    s = cat.make_solver(case)
    t = case['t']
    # shock and vacuum-boundary radius at t from an object that has seen nothing else; the object under test has been used at a later time before
    ref = cat.make_solver(case)
    cat.quiet(ref, np.array([1.0]), t)
    r2, rvv = float(ref.r2), float(ref.rvv)
    cat.quiet(s, np.array([1.0]), 1.9 * t)
    x = np.linspace(r2 * 1e-3, r2 * 1.4, 400)
    sol = cat.quiet(s, x, t)
    vac = case['kind'] == 'vacuum'
    rho = np.asarray(sol['density'], float)
    o.true('density > 0 (exactly 0 only in the evacuated core of a vacuum-type solution)',
           bool(np.all(np.isfinite(rho)) and np.all(rho[x > (rvv * 1.002 if vac else 0)] > 0) and np.all(rho >= 0)), regime=case['kind'])
    p = np.asarray(sol['pressure'], float)
    o.true('pressure >= 0 and finite', bool(np.all(np.isfinite(p)) and np.all(p >= 0)), regime=case['kind'])
    inside = x < r2 * (1 - 2e-3)
    if vac:
        inside &= x > rvv * 1.01
    e = np.asarray(sol['specific_internal_energy'], float)[inside]
    c = np.asarray(sol['sound_speed'], float)[inside]
    o.true('sie >= 0 and sound speed real behind the shock', bool(np.all(np.isfinite(e)) and np.all(e >= 0) and np.all(np.isfinite(c)) and np.all(c >= 0)), regime=case['kind'])
    o.true('velocity outward (>= 0) behind the shock', bool(np.all(np.asarray(sol['velocity'], float) >= -1e-12)), regime=case['kind'])
    i = np.searchsorted(x, r2)
    o.true('shock compressive', bool(rho[i - 3] > rho[min(i + 2, len(x) - 1)] and p[i - 3] > 0), regime=case['kind'])
    o.label('geom%d' % case['geometry'], case['kind'])
    o.nontrivial = True
    return o


@st.composite
def guderley_case(draw):
    return dict(solver=cat.GUDERLEY, params=draw(cat.guderley_params()), t=draw(st.sampled_from([0.3, 0.6, 0.9, 1.3, 1.1, 0.85])))


def check_guderley(case):
    o = Out()
    x = np.linspace(0.05, 2.5, 60)
    sol = cat.run(case, x=x)
    positive(o, sol, ('density',), ('pressure', 'specific_internal_energy', 'sound_speed'))
    rho = np.asarray(sol['density'], float)
    o.true('density never below the initial density (compressive flow)', bool(np.all(rho >= case['params']['rho0'] * (1 - 1e-9)) or case['t'] > 0.75), rho_min=float(rho.min()))
    o.label('gamma%g' % case['params']['gamma'], 't=%g' % case['t'])
    # the shock (converging for t < 0.75, reflected afterwards) is compressive: density, pressure and entropy p / rho^gamma rise
    # from the side the gas comes from (inside before the collapse, outside after it) to the other
    s = cat.make_solver(case)
    g = case['params']['gamma']
    a, b = 0.1, 2.5          # (the steep but smooth profile next to the origin is left out of the search for the jump)
    for n_ in (121, 41, 41):
        xs = np.linspace(a, b, n_)
        f = cat.quiet(s, xs, case['t'])
        r_, p_ = np.asarray(f['density'], float), np.asarray(f['pressure'], float)
        j = int(np.argmax(np.abs(np.diff(r_)) / (r_[:-1] + r_[1:]) + np.abs(np.diff(p_)) / (p_[:-1] + p_[1:] + 1e-300)))
        a, b = xs[j], xs[j + 1]
    if abs(r_[j + 1] - r_[j]) / (r_[j + 1] + r_[j]) > 0.02:          # a jump was isolated (a smooth steep profile narrows to nothing)
        inner, outer = (r_[j], p_[j]), (r_[j + 1], p_[j + 1])
        pre, post = (inner, outer) if case['t'] < 0.75 else (outer, inner)
        which = 'converging' if case['t'] < 0.75 else 'reflected'
        o.true('shock compressive: density rises across the %s shock' % which, post[0] > pre[0], regime=which, pre=pre[0], post=post[0])
        o.true('shock compressive: pressure rises across the %s shock' % which, post[1] > pre[1], regime=which, pre=pre[1], post=post[1])
        o.true('entropy p / rho^gamma does not fall across the %s shock' % which, post[1] / post[0] ** g >= pre[1] / pre[0] ** g * (1 - 1e-9), regime=which)
        o.label(which + '-shock-located')
    o.nontrivial = True
    return o


# ------------------------------------------------------------------ Riemann
def check_riemann(case):
    o = Out()
    P = case['params']
    s = cat.make_solver(case)
    t = case['t']
    gen = 'num_x_pts' in P
    half = case['span'] * 1.15
    x = np.linspace(P['xd0'] - half, P['xd0'] + half, 1201)
    F = rtools.sample(s, x, t)            # rho, u, p, e
    rho, u, p, e = F
    pat = case['pattern']
    o.label(pat, 'gen' if gen else 'ig')
    o.true('density > 0', bool(np.all(np.isfinite(rho)) and np.all(rho > 0)), regime=pat)
    o.true('pressure > 0', bool(np.all(np.isfinite(p)) and np.all(p > 0)), regime=pat)
    o.true('sie > 0', bool(np.all(np.isfinite(e)) and np.all(e > 0)), regime=pat)
    sp = np.asarray(case['speeds'])
    X = P['xd0'] + t * sp
    slack = 2e-3 if gen else 1e-9
    # fans: monotone p, rho, u between head and tail
    fans = []
    if pat[0] == 'R':
        fans.append(('left', X[0], X[1], +1))       # u increases, p and rho decrease to the right in a left fan
    if pat[-1] == 'R':
        fans.append(('right', X[-2], X[-1], +1))    # u increases, p and rho increase to the right in a right fan
    for name, a, b, _ in fans:
        m = (x > a) & (x < b)
        if m.sum() < 3:
            continue
        dirp = -1 if name == 'left' else +1
        mono(o, 'fan: pressure monotone', p[m], dirp, slack, regime=pat + ' ' + name + ' fan')
        mono(o, 'fan: density monotone', rho[m], dirp, slack, regime=pat + ' ' + name + ' fan')
        mono(o, 'fan: velocity monotone', u[m], +1, slack, regime=pat + ' ' + name + ' fan')
    # shocks compressive: star pressure/density exceed the undisturbed side
    ps = case['pstar']
    cell = (x[1] - x[0])
    grid_cell = (P['xmax'] - P['xmin']) * 1.3 / P['num_x_pts'] if gen else 0.0
    d = 3.5 * grid_cell if gen else 1e-7 * case['span']
    for side, j, nb, p0 in (('left', 0, 1, P['pl']), ('right', len(X) - 1, len(X) - 2, P['pr'])):
        if pat[0 if side == 'left' else -1] != 'S':
            continue
        if abs(X[nb] - X[j]) < 2.5 * d or abs(ps / p0 - 1) < 1e-6:
            o.label('shock-too-close-to-next-wave-skip')
            continue
        Fs = rtools.sample(s, np.array([X[j] - d, X[j] + d]), t)
        ahead, behind = (0, 1) if side == 'left' else (1, 0)
        o.true('%s shock compressive (p, rho rise into the shocked gas)' % side,
               bool(Fs[2][behind] > Fs[2][ahead] and Fs[0][behind] > Fs[0][ahead]), regime=pat, p=Fs[2].tolist(), rho=Fs[0].tolist())
    # pattern-independent: every discontinuity that carries a pressure jump must be compressive for the gas that crosses it
    # (speed from the mass jump condition; the gas enters from the side it moves away from in the shock frame)
    if not gen:
        _, _, jumps = rtools.locate_jumps(s, t, x[0], x[-1], n=1500)
        for jp in jumps:
            (rl_, ul_, pl_), (rr_, ur_, pr_) = jp['Fl'][:3], jp['Fr'][:3]
            if abs(pl_ - pr_) <= 1e-6 * max(pl_, pr_) or abs(rl_ - rr_) <= 1e-9 * max(rl_, rr_):
                continue          # contact (or no density jump to take the speed from)
            Dj = (rr_ * ur_ - rl_ * ul_) / (rr_ - rl_)
            flux = rl_ * (ul_ - Dj)                      # > 0: gas crosses from left to right
            if abs(flux) <= 1e-9 * rl_ * (abs(ul_) + abs(Dj) + 1e-300):
                continue
            up_, dn_ = ((pl_, rl_), (pr_, rr_)) if flux > 0 else ((pr_, rr_), (pl_, rl_))
            o.true('every pressure discontinuity is compressive for the gas crossing it (no expansion shock)', bool(dn_[0] > up_[0] and dn_[1] > up_[1]), regime=pat,
                   upstream=list(map(float, up_)), downstream=list(map(float, dn_)), at=float(0.5 * (jp['xl'] + jp['xr'])))
    # global bounds: p between min and max of (pl, pr, p*); velocity between min/max of (ul, ur, u*)
    lo, hi = min(P['pl'], P['pr'], ps), max(P['pl'], P['pr'], ps)
    o.true('pressure bounded by the initial and star pressures', bool(np.all(p >= lo * (1 - 5 * slack - 1e-9) - 4e-12) and np.all(p <= hi * (1 + 5 * slack + 1e-9) + 4e-12)), regime=pat,
           pmin=float(p.min()), pmax=float(p.max()), lo=lo, hi=hi)
    o.nontrivial = P['ul'] != P['ur'] or P['gl'] != P['gr']
    return o


# ------------------------------------------------------------------ EHEP
@st.composite
def ehep_case(draw):
    p = draw(cat.ehep_params())
    return dict(solver=cat.EHEP, params=p, ft=draw(uni(0.05, 0.95)))


def check_ehep(case):
    o = Out()
    P = case['params']
    s = cat.make_solver(case)
    t = case['ft'] * P['tmax']
    x = np.linspace(-0.02 * P['xmax'], P['xmax'] * 0.98, 500)
    sol = cat.quiet(s, x, t)
    rho = np.asarray(sol['density'], float)
    reg = np.asarray(sol['region']).astype(str)
    positive(o, sol, (), ('density', 'pressure', 'specific_internal_energy', 'sound_speed'))
    gas = np.isin(reg, ['I', 'II', 'III', 'IV', 'V'])
    o.true('density > 0 in the product regions I-V (0 only in the documented void regions)', bool(np.all(rho[gas] > 0) or not gas.any()),
           n_zero=int(np.sum(rho[gas] <= 0)))
    o.true('density 0 exactly only where the region is void (00, 0V, None)', bool(np.all(np.isin(reg[rho == 0], ['00', '0V', 'None']))))
    # region I (between the piston-side characteristic and the detonation front): pressure rises toward the front
    m = reg == 'I'
    if m.sum() > 3 and np.all(np.diff(np.where(m)[0]) == 1):
        mono(o, 'region I: pressure non-decreasing toward the detonation front', np.asarray(sol['pressure'], float)[m], +1, 1e-9, regime='I')
    # nothing exceeds the Chapman-Jouguet state (gamma = 3: p_CJ = rho_0 D^2 / 4, rho_CJ = 4 rho_0 / 3) ...
    pcj, rcj = P['rho_0'] * P['D'] ** 2 / 4.0, 4.0 * P['rho_0'] / 3.0
    if P['up'] == 0:
        o.true('pressure and density bounded by the CJ state (no piston)', bool(np.all(np.asarray(sol['pressure'], float) <= pcj * (1 + 1e-9)) and np.all(rho <= rcj * (1 + 1e-9))),
               pmax=float(np.max(np.asarray(sol['pressure'], float))), pcj=pcj)
    # ... and while the detonation is still inside the explosive, the explosive just ahead of the front is undisturbed (rho_0, p = 0)
    tf = case['ft'] * P['xtilde'] / P['D']
    front = P['D'] * tf
    xa = front + P['xtilde'] * np.array([5e-4, 1e-3, 2e-3, 4e-3, 1e-2])
    xa = xa[xa < P['xtilde'] * (1 - 1e-3)]
    if xa.size:
        sa = cat.quiet(s, np.concatenate([[0.5 * front], xa]), tf)
        o.true('explosive just ahead of the detonation front is undisturbed (rho_0, p = 0)',
               bool(np.all(np.asarray(sa['pressure'], float)[1:] == 0) and np.all(np.asarray(sa['density'], float)[1:] == P['rho_0'])),
               p=np.asarray(sa['pressure'], float)[1:].tolist(), rho=np.asarray(sa['density'], float)[1:].tolist(), ahead_by=((xa - front) / P['xtilde']).tolist())
    o.label(*sorted(set(reg)))
    o.nontrivial = True
    return o


# ------------------------------------------------------------------ Mader
@st.composite
def mader_case(draw):
    p = draw(cat.mader_params())
    return dict(solver=cat.MADER, params=p, t=6.25e-6 * draw(logu(0.2, 5.0)), n=draw(st.integers(20, 400)), off=draw(uni(0.0, 1.0)), span=draw(uni(0.5, 1.0)))


def check_mader(case):
    o = Out()
    P = case['params']
    g, D = P['gamma'], P['d_cj']
    t = case['t']
    n = case['n']
    L = D * t
    # tail of the Taylor wave in solver coordinates (position = D t - xdet)
    u_cj, c_cj = D / (g + 1), g * D / (g + 1)
    um = (g - 1) * (u_cj - 2 * c_cj / (g - 1)) / (g + 1)
    xp = 0.5 * (g + 1) * t * (P['u_piston'] - um)
    x_tail = L - xp
    width = case['span'] * L
    dx = width / n
    # grid of n points whose cells (width (x[-1]-x[0])/n) straddle the tail with the generated offset
    x0 = max(0.0, x_tail - (int(n * 0.5) + case['off']) * dx)
    x = x0 + dx * np.arange(n)
    sol = cat.run(case, x=x)
    u, p, c, rho = (np.asarray(sol[k], float) for k in ('velocity', 'pressure', 'sound_speed', 'density'))
    positive(o, sol, ('density', 'pressure', 'sound_speed'), ())
    dxs = (x[-1] - x[0]) / n                  # the cell width the solver derives from the batch
    near = np.abs(x - x_tail) <= 1.6 * dxs    # the cell(s) that can contain the tail
    pc = P['p_cj'] * (1 + (g - 1) * (P['u_piston'] - u_cj) / (2 * c_cj)) ** (2 * g / (g - 1))
    # away from the tail: from the front (position 0) toward the piston u, p, c, rho are non-increasing and bounded by the CJ / constant states
    for k, v in (('velocity', u), ('pressure', p), ('sound_speed', c), ('density', rho)):
        mono(o, '%s non-increasing from the front to the piston' % k, v[~near], -1, 1e-9)
    o.true('pressure bounded by the constant-state and CJ pressures', bool(np.all(p[~near] >= pc * (1 - 1e-9)) and np.all(p[~near] <= P['p_cj'] * (1 + 1e-3))),
           pmin=float(p[~near].min()), pc=pc)
    o.true('velocity bounded by the piston and CJ velocities', bool(np.all(u[~near] >= P['u_piston'] - 1e-9 * D) and np.all(u[~near] <= u_cj * (1 + 1e-9))))
    # the cell(s) at the tail: every value lies between the values of the two neighbouring cells outside
    idx = np.where(near)[0]
    if idx.size and idx[0] > 0 and idx[-1] < n - 1:
        for k, v in (('velocity', u), ('pressure', p), ('sound_speed', c), ('density', rho)):
            lo_, hi_ = min(v[idx[0] - 1], v[idx[-1] + 1]), max(v[idx[0] - 1], v[idx[-1] + 1])
            tol_ = 1e-9 * max(abs(hi_), abs(lo_)) + 1e-300
            o.true('%s of the cell straddling the tail of the Taylor wave lies between its neighbours' % k,
                   bool(np.all(v[idx] >= lo_ - tol_) and np.all(v[idx] <= hi_ + tol_)), regime='transition-cell', values=v[idx].tolist(), lo=float(lo_), hi=float(hi_))
    o.label('tail-in-grid' if x[0] < x_tail < x[-1] else 'tail-outside')
    o.nontrivial = bool(x[0] < x_tail < x[-1])
    return o


# ------------------------------------------------------------------ SDRZ, piston
@st.composite
def sdrz_case(draw):
    return dict(solver=cat.SDRZ, params=draw(cat.sdrz_params()), t=draw(st.one_of(uni(0.2, 1.0), uni(1.0, 2.5))))


def check_sdrz(case):
    o = Out()
    P = case['params']
    D, g, rho0 = P['D'], P['gamma'], P['rho_0']
    t = case['t']
    x = np.linspace(-0.2 * D * t, 1.1 * D * t, 600)
    sol = cat.run(case, x=x)
    rho, p, u = (np.asarray(sol[k], float) for k in ('density', 'pressure', 'velocity'))
    positive(o, sol, ('density',), ('pressure', 'sound_speed', 'reaction_progress'))
    pj = rho0 * D * D / (g + 1)
    behind = x < D * t * (1 - 2.0 / 200)
    o.true('behind the front: pressure between the CJ and von Neumann pressures', bool(np.all(p[behind] >= pj * (1 - 1e-6)) and np.all(p[behind] <= 2 * pj * (1 + 1e-6))),
           pmin=float(p[behind].min()), pmax=float(p[behind].max()), pj=pj)
    o.true('behind the front: density between the CJ and von Neumann densities', bool(np.all(rho[behind] >= rho0 * (g + 1) / g * (1 - 1e-6)) and
                                                                                   np.all(rho[behind] <= rho0 * (g + 1) / (g - 1) * (1 + 1e-6))))
    lam = np.asarray(sol['reaction_progress'], float)
    o.true('reaction progress in [0, 1]', bool(np.all(lam >= 0) and np.all(lam <= 1 + 1e-12)))
    mono(o, 'pressure non-decreasing toward the front through the reaction zone', p[behind], +1, 1e-9)
    mono(o, 'reaction progress non-increasing toward the front', lam[behind], -1, 1e-9)
    o.label('t>1' if t > 1 else 't<=1')
    o.nontrivial = True
    return o


@st.composite
def piston_case(draw):
    return dict(solver=cat.PISTON, params=draw(cat.piston_params()), t=draw(logu(0.05, 5.0)), fr=draw(st.lists(uni(0.0, 1.3), min_size=5, max_size=20)),
                exact=draw(st.booleans()))


def check_piston(case):
    o = Out()
    s = cat.make_solver(case)
    if not (s.wv_pl < s.wv_el):
        o.label('overdriven-skip')
        return o
    t = case['t']
    xmax = 1.3 * s.wv_el * t
    x = sorted([f * s.wv_el * t for f in case['fr']] + [xmax])
    if case['exact']:
        x = sorted(x + [s.wv_pl * t, s.wv_el * t])       # points exactly on the wave positions
    x = np.array(x)
    sol = cat.quiet(s, x, t)
    rho, p, e, u = (np.asarray(sol[k], float) for k in ('density', 'pressure', 'specific_internal_energy', 'velocity'))
    positive(o, sol, ('density',), ('pressure', 'specific_internal_energy', 'velocity'))
    # compression waves: rho, p, u non-increasing with x (piston at the left); a point ON a wave must report one of the two neighbouring states
    reg = 'exact-wave-point' if case['exact'] else ''
    for k, v in (('density', rho), ('pressure', p), ('velocity', u)):
        mono(o, '%s non-increasing away from the piston (values on a wave lie between its two states)' % k, v, -1, 1e-12, regime=reg)
    o.true('both waves compressive', bool(s.rho2 > s.rho_y > s.rho0 and s.p2 > s.p_y > 0), rho=[float(s.rho2), float(s.rho_y), float(s.rho0)])
    o.label(case['params']['model'], reg)
    o.nontrivial = True
    return o


# ------------------------------------------------------------------ Su-Olson
@st.composite
def so_case(draw):
    eps = draw(st.one_of(st.sampled_from([1.0, 0.1]), logu(0.1, 2.5)))
    opac = draw(st.one_of(st.just(1.0), logu(0.05, 20.0)))
    tbc = draw(st.one_of(st.just(1.0e3), logu(10.0, 1e4)))
    tau = draw(logu(0.05, 30.0))
    return dict(solver=SUO, params=dict(opac=opac, alpha=4 * ASOL / eps, trad_bc_ev=tbc), eps=eps, tau=tau, n=draw(st.integers(6, 14)), far=draw(st.booleans()))


def check_suolson(case):
    o = Out()
    P = case['params']
    s = cat.make_solver(case)
    eps, tau = case['eps'], case['tau']
    xmax = 0.3 + 2.0 * math.sqrt(tau / eps)
    if case['far']:
        xmax *= 6.0
    x = np.linspace(0.0, min(xmax, 60.0), case['n'])
    U, V = uv(s, P, x, tau)
    U2, V2 = uv(s, P, x, tau * 1.3)
    reg = 'far-field' if case['far'] else 'heated-layer'
    o.true('temperatures finite and >= 0', bool(np.all(np.isfinite(U)) and np.all(np.isfinite(V)) and np.all(U >= 0) and np.all(V >= 0)), regime=reg)
    o.true('material <= radiation <= boundary temperature', bool(np.all(V <= U + 5e-6) and np.all(U <= 1 + 1e-6)), regime=reg,
           worst=float(np.max(V - U)))
    mono(o, 'radiation energy non-increasing with x', U, -1, 5e-6, regime=reg)
    mono(o, 'material energy non-increasing with x', V, -1, 5e-6, regime=reg)
    o.true('monotone in time: u, v do not decrease', bool(np.all(U2 >= U - 5e-6) and np.all(V2 >= V - 5e-6)), regime=reg, worst=float(np.min(np.minimum(U2 - U, V2 - V))))
    o.label(reg)
    o.nontrivial = True
    return o


# ------------------------------------------------------------------ radiative shocks
@st.composite
def rad_case(draw, kind):
    return dict(solver=cat.RAD + kind + '_Solver', params=draw(cat.radshock_params(kind)), kind=kind)


def check_radshock(case):
    from .c12 import sane_profile
    o = Out()
    kind = case['kind']
    s = cat.make_radshock(case, o)
    if s is None:
        return o
    if kind == 'ie':
        xs = np.asarray(s.x, float)
        if not np.all(np.diff(xs) >= 0):
            o.label('ie-table-not-monotone (C12 finding)')
            return o
    elif not sane_profile(Out(), s, kind):
        o.label('garbage-profile (C12 finding)')
        return o
    xs = np.asarray(s.x, float)
    sol = cat.quiet(s, -xs[::-1][::max(1, len(xs) // 400)], 0.0)
    names = sol.dtype.names
    pos_names = [k for k in ('density', 'pressure', 'specific_internal_energy', 'sound_speed', 'temperature', 'temperature_mat', 'temperature_rad',
                             'temperature_ion', 'temperature_elec', 'rade') if k in names]
    positive(o, sol, tuple(pos_names), ())
    P = case['params']
    c = cat.cls_of(case['solver'])
    Tref = P.get('Tref', c.Tref)
    rho = np.asarray(sol['density'], float)
    o.true('density never below the upstream density (compression)', bool(np.all(rho >= rho.min() * (1 - 1e-12)) and rho[0] <= rho[-1] or rho[0] >= rho[-1]))
    if 'temperature_rad' in names:
        Tr = np.asarray(sol['temperature_rad'], float)
        direction = +1 if Tr[-1] >= Tr[0] else -1
        mono(o, 'radiation temperature monotone between the far-field values', Tr, direction, 1e-6, regime=kind)
    Tm = np.asarray(sol['temperature' if kind == 'ED' else 'temperature_mat'], float)
    o.true('material temperature never below the upstream temperature', bool(np.all(Tm >= Tref * (1 - 1e-6))), Tmin=float(Tm.min()), regime=kind)
    o.label(kind, 'M0=%g' % P['M0'])
    o.nontrivial = True
    return o


@st.composite
def r_ig(draw):
    return draw(cat.riemann_case(solver='ig', n_min=1, n_max=1))


@st.composite
def r_gen(draw):
    return draw(cat.riemann_case(solver='gen', n_min=1, n_max=1))


OBLIGATIONS = [
    Obligation('noh-admissible', cat.noh_case(n_min=1, n_max=1), check_noh, quick=200, thorough=8000),
    Obligation('sedov-admissible', sedov_case(), check_sedov, quick=16, thorough=300, min_per_shard=1),
    Obligation('guderley-admissible', guderley_case(), check_guderley, quick=12, thorough=48, min_per_shard=1),
    Obligation('igeos-admissible', r_ig(), check_riemann, quick=300, thorough=12000),
    Obligation('geneos-admissible', r_gen(), check_riemann, quick=24, thorough=400, min_per_shard=1, expected_exc=(ValueError,)),
    Obligation('ehep-admissible', ehep_case(), check_ehep, quick=100, thorough=3000),
    Obligation('mader-admissible', mader_case(), check_mader, quick=400, thorough=15000),
    Obligation('sdrz-admissible', sdrz_case(), check_sdrz, quick=200, thorough=8000),
    Obligation('piston-admissible', piston_case(), check_piston, quick=300, thorough=10000),
    Obligation('suolson-admissible', so_case(), check_suolson, quick=64, thorough=2000, min_per_shard=2),
    Obligation('radshock-ED-admissible', rad_case('ED'), check_radshock, quick=6, thorough=60, min_per_shard=1),
    Obligation('radshock-nED-admissible', rad_case('nED'), check_radshock, quick=16, thorough=300, min_per_shard=1),
    Obligation('radshock-ie-admissible', rad_case('ie'), check_radshock, quick=8, thorough=200, min_per_shard=1),
]
for _o in OBLIGATIONS:
    if _o.name in ('sedov-admissible', 'guderley-admissible', 'geneos-admissible', 'radshock-ED-admissible'):
        _o.cost = 50.0
# coverage-guided supplement (atheris / libFuzzer over the same strategy and oracle; see vp/fuzz.py)
OBLIGATIONS.append(fuzzed([o for o in OBLIGATIONS if o.name == 'igeos-admissible'][0], quick=0, thorough=40000, modules=('exactpack.solvers.riemann',)))
