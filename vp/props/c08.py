"""C08 - dimensional consistency: a change of units in gives the same change out."""
import math
import numpy as np
from hypothesis import strategies as st, assume

from ..core import Obligation, Out
from .. import cat, cogcat
from ..strat import uni, logu, pos, pow2

META = dict(
    technique='Hypothesis metamorphic testing: solver(scale(params))(scale(x), scale(t)) == scale(solver(params)(x, t)) with a dimension table per solver family',
    rule='cases = (base case from the solver recipe, scale factors M, L, T (and Theta) log-uniform in [1e-3, 1e3] or powers of two); each parameter, the points, the time and '
         'each output field carry exponents of (M, L, T, Theta) written from the documentation; oracle = field-by-field equality of the scaled call with the scaled '
         'result; dimensionless parameters (gamma, omega, b, alpha, beta, geometry, ...) are never scaled; non-trivial = at least two scale factors differ from 1 by > 10x; '
         'distinct = case hash',
    assumptions=['solvers with built-in time/length units are scaled only in the dimensions they leave free: Noh2 (collapse at t = 1) in M, L; Guderley (shock at r = 1 at t = 0, '
                 'collapse at t = 0.750024) in M only; Cog7 (no mass scale) is excluded; Coggeshall 10, 13, 14, 16, 17 carry the radiation constants c, a and are excluded as the property says',
                 'tolerance 1e-9 (closed forms), 1e-9 + 1e-10/p* for the bisected Riemann star state, 2e-3 for Sedov (same relative table)'])

D_RHO, D_U, D_P, D_E, D_X, D_T, D_TH = (1, -3, 0, 0), (0, 1, -1, 0), (1, -1, -2, 0), (0, 2, -2, 0), (0, 1, 0, 0), (0, 0, 1, 0), (0, 0, 0, 1)
GAS_FIELDS = dict(position=D_X, density=D_RHO, pressure=D_P, specific_internal_energy=D_E, velocity=D_U, sound_speed=D_U)


def fac(d, S):
    return S[0] ** d[0] * S[1] ** d[1] * S[2] ** d[2] * S[3] ** d[3]


def scaled(v, d, S):
    if isinstance(v, (list, tuple)):
        return [scaled(x, d, S) for x in v]
    return v * fac(d, S)


@st.composite
def scales(draw, free=(1, 1, 1, 1)):
    out = []
    for f in free:
        if not f:
            out.append(1.0)
        else:
            out.append(draw(st.one_of(pow2(-8, 8), logu(1e-3, 1e3))))
    return out


def compare(o, A, B, fields, S, rtol, regime='', scale_of=None):
    for k in A.dtype.names:
        if k not in fields:
            if A.dtype[k].kind in 'fiu':
                o.fail('every numeric output field has a documented dimension', regime, field=k)
            continue
        a = np.asarray(A[k], float) * fac(fields[k], S)
        b = np.asarray(B[k], float)
        sc = np.max(np.abs(a)) if scale_of is None else scale_of.get(k, np.max(np.abs(a)))
        o.close('%s transforms with its dimension' % k, b, a, rtol, scale=sc + 1e-300, regime=regime)


def nontrivial(S):
    return sum(1 for s in S if s > 10 or s < 0.1) >= 2


def generic(case, pdims, fields, S, rtol=1e-9, xdim=D_X, tdim=D_T, regime='', x=None, label=None):
    o = Out()
    P = case['params']
    Q = {k: (scaled(v, pdims[k], S) if k in pdims else v) for k, v in P.items()}
    xx = np.asarray(case['x'] if x is None else x, float)
    A = cat.run(case, x=xx)
    B = cat.run(dict(case, params=Q), x=xx * fac(xdim, S), t=case['t'] * fac(tdim, S))
    compare(o, A, B, fields, S, rtol, regime=regime)
    o.label(label or case['solver'].rsplit('.', 1)[1])
    o.nontrivial = nontrivial(S)
    return o


# ------------------------------------------------------------------ gas dynamics
@st.composite
def noh_c(draw):
    c = draw(cat.noh_case(wrappers=False))
    c['S'] = draw(scales((1, 1, 1, 0)))
    return c


def check_noh(case):
    return generic(case, dict(rho0=D_RHO, u0=D_U), GAS_FIELDS, case['S'])


@st.composite
def noh2_c(draw):
    c = draw(cat.noh2_case(wrappers=False))
    c['S'] = draw(scales((1, 1, 0, 0)))
    return c


def check_noh2(case):
    f = dict(GAS_FIELDS, temperature=D_E)         # Noh2Cog: Gamma = 1, temperature carries energy units
    return generic(case, dict(rho0=D_RHO, e0=D_E), f, case['S'])


@st.composite
def sedov_c(draw):
    c = draw(cat.sedov_params(types=('standard', 'vacuum'), wrappers=False))
    c['t'] = draw(logu(0.2, 3.0))
    c['fr'] = draw(st.lists(uni(0.3, 1.3), min_size=3, max_size=6))
    c['S'] = draw(scales((1, 1, 1, 0)))
    return c


def check_sedov(case):
    o = Out()
    S = case['S']
    k, om = case['geometry'], case['omega']
    P = case['params']
    pd = dict(rho0=(1, om - 3, 0, 0), eblast=(1, k - 1, -2, 0))
    Q = {kk: (scaled(v, pd[kk], S) if kk in pd else v) for kk, v in P.items()}
    s1, s2 = cat.make_solver(case), cat.make_solver(dict(case, params=Q))
    t = case['t']
    cat.quiet(s1, np.array([1.0]), t)
    r2 = float(s1.r2)
    x = np.array(sorted([r2 * f for f in case['fr']] + [1.5 * r2]))        # the last point pins the same relative table in both calls
    A = cat.quiet(s1, x, t)
    B = cat.quiet(s2, x * S[1], t * S[2])
    rho = np.asarray(A['density'], float)
    keep = (rho > 3e-3 * rho.max()) | (x > r2)          # small-radius region is disclaimed
    keep &= np.abs(x / r2 - 1) > 2e-3
    hole = (np.asarray(A['density']) == 0)
    compare(o, A[keep & ~hole], B[keep & ~hole], GAS_FIELDS, S, 2e-3, regime=case['kind'],
            scale_of={kk: float(np.max(np.abs(np.asarray(A[kk], float)[np.isfinite(np.asarray(A[kk], float))])) * fac(GAS_FIELDS[kk], S)) for kk in A.dtype.names})
    o.label('geom%d' % k, case['kind'])
    o.nontrivial = nontrivial(S)
    return o


@st.composite
def riemann_c(draw, solver):
    c = draw(cat.riemann_case(solver=solver, n_min=4, n_max=10))
    c['S'] = draw(scales((1, 1, 1, 0)))
    return c


def check_riemann(case):
    o = Out()
    S = case['S']
    P = case['params']
    pd = dict(rl=D_RHO, rr=D_RHO, ul=D_U, ur=D_U, pl=D_P, pr=D_P, xmin=D_X, xd0=D_X, xmax=D_X)
    Q = {k: (scaled(v, pd[k], S) if k in pd else v) for k, v in P.items()}
    gen = 'num_x_pts' in P
    x = np.asarray(case['x'], float)
    waves = P['xd0'] + case['t'] * np.asarray(case['speeds'])
    ps = case['pstar']
    rtol = 2e-3 if gen else 1e-9 + 1e-10 / min(ps, ps * fac(D_P, S))
    # (wave speeds carry the same relative uncertainty as the states: a point closer to a wave than that may legitimately fall on its other side)
    margin = 3.0 * (P['xmax'] - P['xmin']) * 1.3 / P['num_x_pts'] if gen else max(1e-6, 3.0 * rtol) * case['span']
    x = x[np.all(np.abs(x[:, None] - waves[None, :]) > margin, axis=1)]
    o.label(case['pattern'])
    if x.size == 0:
        return o
    A = cat.run(case, x=x)
    B = cat.run(dict(case, params=Q), x=x * S[1], t=case['t'] * S[2])
    small = min(min(P['rl'], P['rr']) * min(1.0, fac(D_RHO, S)), min(P['pl'], P['pr'], ps) * min(1.0, fac(D_P, S)))
    acoustic = abs(ps / P['pl'] - 1) < 1e-3 and abs(ps / P['pr'] - 1) < 1e-3
    reg = case['pattern'] + (' tiny-magnitudes' if small < 1e-4 else '') + (' acoustic' if acoustic else '')
    cl, cr = math.sqrt(P['gl'] * P['pl'] / P['rl']), math.sqrt(P['gr'] * P['pr'] / P['rr'])
    so = dict(position=1.0, density=max(P['rl'], P['rr']) * fac(D_RHO, S), pressure=max(P['pl'], P['pr']) * fac(D_P, S),
              velocity=(max(cl, cr) + abs(P['ul']) + abs(P['ur'])) * fac(D_U, S),
              specific_internal_energy=max(P['pl'] / P['rl'] / (P['gl'] - 1), P['pr'] / P['rr'] / (P['gr'] - 1)) * fac(D_E, S))
    so['position'] = (np.max(np.abs(x)) + 1e-300) * S[1]
    compare(o, A, B, GAS_FIELDS, S, rtol, regime=reg, scale_of=so)
    o.nontrivial = nontrivial(S)
    return o


@st.composite
def guderley_c(draw):
    return dict(solver=cat.GUDERLEY, params=draw(cat.guderley_params()), t=draw(st.sampled_from([0.4, 0.9])), x=draw(st.lists(uni(0.2, 2.0), min_size=3, max_size=5)),
                S=draw(scales((1, 0, 0, 0))))


def check_guderley(case):
    o = generic(case, dict(rho0=D_RHO), GAS_FIELDS, case['S'], rtol=1e-7)
    o.nontrivial = case['S'][0] > 10 or case['S'][0] < 0.1          # only the mass unit is free for this solver
    return o


# ------------------------------------------------------------------ Coggeshall (no built-in radiation constants)
COG_SCOPE = [1, 2, 3, 4, 5, 6, 8, 9, 11, 12, 18, 19, 20, 21]
D_GAMMA = (0, 2, -2, -1)


def cog_dims(n, p, geom):
    k = geom - 1.0
    g = p.get('gamma')
    d = dict(Gamma=D_GAMMA)
    if n == 1:
        b = p['b']
        d.update(rho0=(1, -3 - b, b + k + 1, 0), temp0=(0, b, -(b - (g - 1) * (k + 1)), 1))
    elif n == 2:
        c1 = 2 + (g - 1) * (k + 1)
        c2 = -2 * (p['b'] + k + 1) / c1
        d.update(rho0=(1, -3 - p['b'], -c2, 0))
    elif n == 3:
        d.update(rho0=(1, -3 - (p['v'] - k - 1), 0, 0), b=(0, 0, -1, 0))
    elif n == 4:
        x1, x2 = -k / (g + 1), -k * (g - 1) / (g + 1)
        d.update(rho0=(1, -3 - 2 * x1, 0, 0), u0=(0, 1 - x2, -1, 0))
    elif n == 5:
        d.update(rho0=(1, -1, 0, 0), u0=(0, 1, -2, 0))
    elif n == 6:
        d.update(rho0=(1, -3 - p['b'], k + 1 + p['b'], 0), tau=D_T)
    elif n == 8:
        c1 = (k - 1) / (p['beta'] - p['alpha'] + 4)
        c2 = (k + 1) + c1
        c3 = (1 - g) * (k + 1) + c1
        d.update(rho0=(1, -3 - c1, c2, 0), temp0=(0, c1, -c3, 1))
    elif n == 9:
        c1 = 2 * p['beta'] + k + 7
        c2 = -c1 / p['alpha']
        c3 = 2 + (g - 1) * (k + 1)
        c4 = -2 * (p['alpha'] * (k + 1) - c1) / p['alpha'] / c3
        d.update(rho0=(1, -3 - c2, -c4, 0))
    elif n == 11:
        c1 = (g - 1) * (k + 1)
        d.update(rho0=(1, -3 - (c1 - 2), -(1 - k - c1), 0), temp0=(0, -(2 - c1), 2, 1))
    elif n == 12:
        c1, c2 = -2 * k / (g + 1), k * (1 - g) / (1 + g)
        d.update(rho0=(1, -3 - c1, 0, 0), u0=(0, 1 - c2, -1, 0))
    elif n == 18:
        c1 = -(2 * p['beta'] + k + 7) / p['alpha']
        c3 = -(k + 1) / 2 - c1 / 2
        d.update(rho0=(1, -3 - c1, -2 * c3, 0), tau=D_T)
    elif n == 19:
        d.update(rho0=D_RHO, u0=D_U)
    elif n == 20:
        d.update(rho0=D_RHO, u0=D_U, a=(0, 0, -1, 0))
    elif n == 21:
        d.update(rho0=(1, 0, 0, 0), temp0=(0, -3, 0, 1))
    return d


COG_FIELDS = dict(position=D_X, density=D_RHO, velocity=D_U, temperature=D_TH, pressure=D_P, specific_internal_energy=D_E)


@st.composite
def cog_c(draw):
    c = draw(cogcat.cog_case(ids=COG_SCOPE, n_min=2, n_max=5, wrappers=False))
    c['S'] = draw(scales((1, 1, 1, 1)))
    return c


def check_cog(case):
    n, geom = case['cog'], case['geometry']
    p = {k: v for k, v in case['params'].items() if k != 'geometry'}
    x = np.asarray(case['x'], float)
    rs = cogcat.shock_radius(n, p, geom, case['t'])
    if rs is not None and rs > 0:
        x = x[np.abs(x / rs - 1) > 1e-6]
    if x.size == 0:
        return Out()
    o = generic(case, cog_dims(n, p, geom), COG_FIELDS, case['S'], rtol=1e-9, regime='cog%d' % n, x=x, label='cog%d' % n)
    return o


# ------------------------------------------------------------------ detonation / burn / solids / heat
@st.composite
def ehep_c(draw):
    p = draw(cat.ehep_params())
    pts = draw(st.lists(st.tuples(st.sampled_from(['I', 'II', 'III', 'IV', 'V', '0H']), st.lists(uni(0.1, 1.0), min_size=4, max_size=4)), min_size=1, max_size=4))
    return dict(solver=cat.EHEP, params=p, pts=pts, S=draw(scales((1, 1, 1, 0))))


def check_ehep(case):
    from .c03 import ehep_point
    o = Out()
    S = case['S']
    P = case['params']
    pd = dict(D=D_U, rho_0=D_RHO, up=D_U, xtilde=D_X, xmax=D_X, tmax=D_T)
    Q = {k: scaled(v, pd[k], S) for k, v in P.items()}
    s1, s2 = cat.make_solver(case), cat.make_solver(dict(case, params=Q))
    for region, w in case['pts']:
        c = np.asarray(s1.corners[region], float)
        cen = c.mean(axis=0)
        x, t = ehep_point(s1, region, w)
        x, t = cen[0] + 0.9 * (x - cen[0]), cen[1] + 0.9 * (t - cen[1])       # away from the (ragged) region boundaries
        if t <= 0:
            continue
        A = cat.quiet(s1, np.array([x]), t)
        B = cat.quiet(s2, np.array([x * S[1]]), t * S[2])
        o.true('same region after the change of units', str(A['region'][0]) == str(B['region'][0]), a=str(A['region'][0]), b=str(B['region'][0]))
        compare(o, A, B, GAS_FIELDS, S, 1e-9, regime=str(A['region'][0]), scale_of=dict(position=abs(x) * S[1] + 1e-300, density=P['rho_0'] * fac(D_RHO, S), pressure=P['rho_0'] * P['D'] ** 2 * fac(D_P, S),
                                                                                      specific_internal_energy=P['D'] ** 2 * fac(D_E, S), velocity=P['D'] * fac(D_U, S), sound_speed=P['D'] * fac(D_U, S)))
        o.label('region-' + region)
    o.nontrivial = nontrivial(S)
    return o


@st.composite
def mader_c(draw):
    p = draw(cat.mader_params())
    t = 6.25e-6 * draw(logu(0.2, 5.0))
    n = draw(st.integers(10, 100))
    return dict(solver=cat.MADER, params=p, t=t, x=(np.linspace(0.0, 1.0, n) * p['d_cj'] * t).tolist(), S=draw(scales((1, 1, 1, 0))))


def check_mader(case):
    f = dict(position=D_X, velocity=D_U, pressure=D_P, sound_speed=D_U, density=D_RHO, xdet=D_X)
    return generic(case, dict(p_cj=D_P, d_cj=D_U, u_piston=D_U), f, case['S'])


@st.composite
def burn_c(draw):
    which = draw(st.sampled_from(['k1', 'k2', 'k3', 'dsd']))
    S = draw(scales((0, 1, 1, 0)))
    if which == 'k1':
        p = draw(cat.ken1_params())
        pts = [[draw(uni(-8.0, 8.0)) for _ in range(p['geometry'])] for _ in range(draw(st.integers(2, 6)))]
        return dict(solver=cat.KEN1, params=p, pts=pts, which=which, S=S, t=0.0)
    if which == 'k2':
        p = draw(cat.ken2_params())
        ext = max(abs(a) for a in p['dets']) * 1.2
        pts = [[draw(uni(-1.0, 1.0)) * ext for _ in range(p['geometry'])] for _ in range(draw(st.integers(2, 6)))]
        return dict(solver=cat.KEN2, params=p, pts=pts, which=which, S=S, t=0.0)
    if which == 'k3':
        p = draw(cat.ken3_params())
        pts = []
        for _ in range(draw(st.integers(2, 6))):
            d = draw(cat.unit_vec(p['geometry']))
            l = p['R'] * (1 + draw(logu(1e-3, 5.0)))
            pts.append([c * l for c in d])
        return dict(solver=cat.KEN3, params=p, pts=pts, which=which, S=S, t=0.0)
    p = draw(cat.dsdcyl_params())
    pts = []
    for _ in range(draw(st.integers(2, 6))):
        d = draw(cat.unit_vec(2))
        l = p['r_1'] * draw(logu(0.3, 12.0))
        pts.append([d[0] * l, d[1] * l])
    return dict(solver=cat.DSDCYL, params=p, pts=pts, which=which, S=S, t=0.0)


def check_burn(case):
    o = Out()
    S = case['S']
    P = case['params']
    pd = dict(D=D_U, D1=D_U, D2=D_U, x_d=D_X, t_d=D_T, R=D_X, dets=D_X, r_1=D_X, r_2=D_X, D_CJ_1=D_U, D_CJ_2=D_U, alpha_1=(0, 2, -1, 0), alpha_2=(0, 2, -1, 0))
    Q = {k: (scaled(v, pd[k], S) if k in pd else v) for k, v in P.items()}
    X = np.asarray(case['pts'], float)
    A = cat.run(case, x=X)
    B = cat.run(dict(case, params=Q), x=X * S[1])
    f = dict(position_x=D_X, position_y=D_X, position_z=D_X, burntime=D_T)
    bt = np.asarray(A['burntime'], float)
    so = {k: (np.max(np.abs(np.asarray(A[k], float))) + 1e-300) * fac(f[k], S) for k in A.dtype.names}
    D = P.get('D', P.get('D2', P.get('D_CJ_2')))
    so['burntime'] = (np.max(np.abs(bt)) + np.max(np.abs(X)) / D) * S[2]
    rtol = 1e-9
    if case['which'] == 'k3':
        # path around the obstacle: R arccos(.) with an argument that reaches 1 - 1e-16 for points behind the sphere: the arc is only defined to
        # ~ sqrt(eps) = 1.5e-8 rad there (same allowance as in C07 / C09: 6e-8 R / D in time)
        rtol = 1e-9 + 6e-8 * (P['R'] / P['D']) / (so['burntime'] / S[2])
    compare(o, A, B, f, S, rtol, regime=case['which'], scale_of=so)
    o.label(case['which'])
    o.nontrivial = nontrivial(S)
    return o


@st.composite
def blake_c(draw):
    from .c15 import field_case
    c = draw(field_case())
    assume(c['t'] > 0)
    c['S'] = draw(scales((1, 1, 1, 0)))
    return c


def check_blake(case):
    import warnings
    from .c15 import NAMES, BLAKE
    o = Out()
    S = case['S']
    P = case['params']
    D_MOD = D_P
    kw1 = dict(P)
    kw1[case['pair'][0]], kw1[case['pair'][1]] = case['vals']
    kw2 = dict(ref_density=P['ref_density'] * fac(D_RHO, S), cavity_radius=P['cavity_radius'] * S[1], pressure_scale=P['pressure_scale'] * fac(D_P, S))
    for nme, v in zip(case['pair'], case['vals']):
        kw2[nme] = v if nme == 'poisson_ratio' else v * fac(D_MOD, S)
    c = cat.cls_of(BLAKE)
    with warnings.catch_warnings():
        warnings.simplefilter('ignore')
        s1, s2 = cat.quiet(c, **kw1), cat.quiet(c, **kw2)
        cl = math.sqrt(float(s1.long_mod) / P['ref_density'])
        a = P['cavity_radius']
        front = a + cl * case['t']
        r = np.array(sorted([a] + [a + f * cl * case['t'] for f in case['fr']]))
        r = r[np.abs(r - front) > 1e-6 * front]          # a point ON the wave front changes side with the last ulp
        A = cat.quiet(s1, r, case['t'])
        B = cat.quiet(s2, r * S[1], case['t'] * S[2])
    f = dict(position=D_X, curr_posn=D_X, displacement=D_X, strain_rr=(0, 0, 0, 0), strain_qq=(0, 0, 0, 0), strain_vol=(0, 0, 0, 0), density=D_RHO, stress_rr=D_P, stress_qq=D_P,
             pressure=D_P, stress_dev_rr=D_P, stress_dev_qq=D_P, stress_diff=D_P)
    P0, M = P['pressure_scale'], float(s1.long_mod)
    so = dict(position=r.max() * S[1], curr_posn=r.max() * S[1], displacement=a * P0 / M * S[1], strain_rr=P0 / M, strain_qq=P0 / M, strain_vol=P0 / M,
              density=P['ref_density'] * fac(D_RHO, S))
    for k in ('stress_rr', 'stress_qq', 'pressure', 'stress_dev_rr', 'stress_dev_qq', 'stress_diff'):
        so[k] = P0 * fac(D_P, S)
    compare(o, A, B, f, S, 1e-8, scale_of=so)
    o.label('blake')
    o.nontrivial = nontrivial(S)
    return o


@st.composite
def piston_c(draw):
    return dict(solver=cat.PISTON, params=draw(cat.piston_params()), t=draw(logu(0.05, 5.0)), fr=draw(st.lists(uni(0.0, 1.2), min_size=3, max_size=8)), S=draw(scales((1, 1, 1, 0))))


def check_piston(case):
    o = Out()
    S = case['S']
    P = case['params']
    pd = dict(G=D_P, Y=D_P, rho0=D_RHO, up=D_U, c0=D_U)
    Q = {k: (scaled(v, pd[k], S) if k in pd else v) for k, v in P.items()}
    s1, s2 = cat.make_solver(case), cat.make_solver(dict(case, params=Q))
    if not (s1.wv_pl < s1.wv_el):
        return o
    t = case['t']
    x = np.array(sorted([f * s1.wv_el * t for f in case['fr']] + [1.3 * s1.wv_el * t]))
    x = x[(np.abs(x - s1.wv_pl * t) > 1e-6 * x.max()) & (np.abs(x - s1.wv_el * t) > 1e-6 * x.max())]
    A = cat.quiet(s1, x, t)
    B = cat.quiet(s2, x * S[1], t * S[2])
    f = dict(GAS_FIELDS)
    f['deviatoric stress'] = D_P
    K = P['rho0'] * P['c0'] ** 2
    so = dict(position=x.max() * S[1], density=P['rho0'] * fac(D_RHO, S), pressure=K * 1e-2 * fac(D_P, S), specific_internal_energy=P['up'] ** 2 * fac(D_E, S),
              velocity=P['up'] * fac(D_U, S))
    so['deviatoric stress'] = P['Y'] * fac(D_P, S)
    compare(o, A, B, f, S, 1e-7, regime=P['model'], scale_of=so)
    o.label(P['model'])
    o.nontrivial = nontrivial(S)
    return o


@st.composite
def rod_c(draw):
    from .c14 import rod_case, robin_case
    if draw(st.integers(0, 3)) == 0:
        c = draw(robin_case())
        c['kind'] = 'robin'
    else:
        c = draw(rod_case())
    c['S'] = draw(scales((0, 1, 1, 1)))
    return c


def check_rod(case):
    o = Out()
    S = case['S']
    P = case['params']
    D_K = (0, 2, -1, 0)
    pd = dict(kappa=D_K, L=D_X, TL=D_TH, TR=D_TH, alpha1=(0, 0, 0, 0), alpha2=(0, 0, 0, 0), beta1=D_X, beta2=D_X, gamma1=D_TH, gamma2=D_TH,
              TB=D_TH, TT=D_TH, F=(0, -1, 0, 1), FT=(0, -1, 0, 1))
    Q = {k: (scaled(v, pd[k], S) if k in pd else v) for k, v in P.items()}
    L, kappa = P['L'], P['kappa']
    t = case['ft'] * 1e-3 * L * L / kappa
    x = np.asarray(case['fx']) * L
    A = cat.run(dict(case, t=t), x=x)
    B = cat.run(dict(case, params=Q, t=t * S[2]), x=x * S[1])
    sc = (abs(P['TL']) + abs(P['TR']) + sum(abs(P.get(k, 0.0)) for k in ('gamma1', 'gamma2', 'TB', 'TT')) + sum(abs(P.get(k, 0.0)) * L for k in ('F', 'FT')) + 1e-6) * S[3]
    compare(o, A, B, dict(position=D_X, temperature=D_TH), S, 1e-8, regime=case.get('kind', 'rod') + (' L=1' if L == 1.0 else ' L!=1'), scale_of=dict(position=L * S[1], temperature=sc))
    o.label(case.get('kind', 'rod'), 'L=1' if L == 1.0 else 'L!=1')
    o.nontrivial = nontrivial(S)
    return o


@st.composite
def h1_c(draw):
    from .c14 import h1_case
    c = draw(h1_case())
    c['S'] = draw(scales((1, 1, 1, 1)))
    return c


def check_h1(case):
    o = Out()
    S = case['S']
    P = case['params']
    pd = dict(k=(1, 1, -3, -1), cp=(0, 2, -2, -1), rho=D_RHO, b=D_X, Tb=D_TH, T0=D_TH)
    Q = {k: (scaled(v, pd[k], S) if k in pd else v) for k, v in P.items()}
    al = P['k'] / (P['rho'] * P['cp'])
    t = case['ft'] * 1e-3 * P['b'] ** 2 / al
    r = np.concatenate([[0.0], np.asarray(case['fx']) * P['b']])       # (with the centre, where the series has its own limit form)
    A = cat.run(dict(case, t=t), x=r)
    B = cat.run(dict(case, params=Q, t=t * S[2]), x=r * S[1])
    compare(o, A, B, dict(radius=D_X, temperature=D_TH), S, 1e-8, scale_of=dict(radius=P['b'] * S[1], temperature=(abs(P['Tb']) + abs(P['T0']) + 1e-6) * S[3]))
    o.label('hutchens1')
    o.nontrivial = nontrivial(S)
    return o


OBLIGATIONS = [
    Obligation('noh-units', noh_c(), check_noh, quick=300, thorough=10000),
    Obligation('noh2-units', noh2_c(), check_noh2, quick=300, thorough=10000),
    Obligation('sedov-units', sedov_c(), check_sedov, quick=12, thorough=200, min_per_shard=1),
    Obligation('igeos-units', riemann_c('ig'), check_riemann, quick=300, thorough=10000),
    Obligation('geneos-units', riemann_c('gen'), check_riemann, quick=16, thorough=300, min_per_shard=1, expected_exc=(ValueError,)),
    Obligation('guderley-units', guderley_c(), check_guderley, quick=6, thorough=24, min_per_shard=1),
    Obligation('cog-units', cog_c(), check_cog, quick=1200, thorough=40000),
    Obligation('ehep-units', ehep_c(), check_ehep, quick=200, thorough=6000),
    Obligation('mader-units', mader_c(), check_mader, quick=200, thorough=6000),
    Obligation('burn-units', burn_c(), check_burn, quick=600, thorough=20000, expected_exc=(ValueError,)),
    Obligation('blake-units', blake_c(), check_blake, quick=300, thorough=10000),
    Obligation('piston-units', piston_c(), check_piston, quick=300, thorough=10000),
    Obligation('rod-units', rod_c(), check_rod, quick=300, thorough=10000),
    Obligation('hutchens1-units', h1_c(), check_h1, quick=200, thorough=6000),
]
for _o in OBLIGATIONS:
    if _o.name in ('sedov-units', 'geneos-units', 'guderley-units'):
        _o.cost = 50.0
