"""Recipes for the twenty Coggeshall solvers (parameters drawn constructively
from the region where the closed forms are real, finite and have T>0, rho>0)."""
import math
from hypothesis import strategies as st
from .strat import logu, uni, pos, gamma_gt1

C_LIGHT = 2.997e10
A_RAD = 1.3720e+02

COG_IDS = [1, 2, 3, 4, 5, 6, 7, 8, 9, 10, 11, 12, 13, 14, 16, 17, 18, 19, 20, 21]
GEOMS = {n: (1, 2, 3) for n in COG_IDS}
GEOMS[10] = GEOMS[12] = GEOMS[16] = (2, 3)
GEOMS[5] = GEOMS[21] = (3,)          # fixed spherical, no geometry parameter
NO_GEOM_PARAM = (5, 21)


def path(n, geom_wrapper=None):
    cls = 'Cog%d' % n
    if geom_wrapper:
        cls = {1: 'Planar', 2: 'Cylindrical', 3: 'Spherical'}[geom_wrapper] + cls
    return 'exactpack.solvers.cog.cog%d.%s' % (n, cls)


def gamma_eff(n, p, geometry):
    """The adiabatic index the problem declares (fixed by the problem for some)."""
    k = geometry - 1.0
    if n == 3:
        return (k - 1) / (k + 1)
    if n == 5:
        return 0.5
    if n in (6, 7, 18):
        return (k + 3) / (k + 1)
    if n == 21:
        return 5.0
    return p['gamma']


def conduction(n, p, geometry):
    """(alpha, beta, lambda0) of the heat-flux law used by problem n; lambda0=None
    when the solution must hold for every lambda0 (div F = 0 separately);
    None when the problem has no conduction at all."""
    k = geometry - 1.0
    g = p.get('gamma')
    if n in (1, 2, 3, 4, 5, 6, 7, 19, 20, 21):
        return None
    if n in (8, 9, 18):
        return (p['alpha'], p['beta'], None)
    if n == 10:
        return (p['beta'] + 4 - 1 / k, p['beta'], p['lambda0'])
    if n == 11:
        c3 = 2 - (g - 1) * (k + 1)
        return (p['beta'] + 4 + (k - 1) / c3, p['beta'], None)
    if n == 12:
        # from div F = 0 with rho ~ r^c1, T ~ r^(2 c2)
        return ('derive', p['beta'], None)
    if n in (13, 14, 17):
        return (p['alpha'], p['beta'], p['lambda0'])
    if n == 16:
        a = 1.0 - 1.0 / k
        return (a, a / 2.0 - 3.0, p['lambda0'])
    raise KeyError(n)


_alpha_std = st.one_of(uni(-2.0, -1.0), st.sampled_from([-1.0, -2.0, -1.5]))
_beta_std = st.one_of(uni(1.0, 3.0), st.sampled_from([1.0, 2.0, 3.0]))


@st.composite
def cog_params(draw, n, geometry):
    """Admissible parameters (without 'geometry') for Cog n in the given geometry."""
    k = geometry - 1.0
    p = {}
    G = lambda: draw(pos(40.0))
    if n == 1:
        p = dict(gamma=draw(gamma_gt1()), rho0=draw(pos(1.8)), temp0=draw(pos(1.4)),
                 b=draw(st.one_of(st.just(1.2), st.just(0.0), uni(-2.5, 3.0))), Gamma=G())
    elif n == 2:
        p = dict(gamma=draw(gamma_gt1()), rho0=draw(pos(1.8)), b=draw(st.one_of(st.just(1.2), uni(-1.8, 3.0))), Gamma=G())
    elif n == 3:
        d = draw(logu(0.05, 3.0))
        v = (k - 1) - d
        if abs(v) < 0.05:
            v = -0.05 - d
        b = draw(logu(0.1, 3.0)) * draw(st.sampled_from([1.0, -1.0]))
        p = dict(rho0=draw(pos(1.8)), b=b, v=v, Gamma=G())
    elif n == 4:
        p = dict(gamma=draw(uni(0.2, 0.95)), rho0=draw(pos(1.4)), u0=draw(pos(2.3)), Gamma=G())
    elif n == 5:
        p = dict(rho0=draw(pos(1.8)), u0=draw(pos(2.3)), Gamma=G())
    elif n == 6:
        p = dict(rho0=draw(pos(1.8)), tau=draw(pos(1.25)), b=draw(st.one_of(st.just(1.2), uni(-1.8, 3.0))), Gamma=G())
    elif n == 7:
        gam = (k + 3) / (k + 1)
        Ri = draw(pos(0.1))
        p = dict(tau=draw(pos(1.25)), b=draw(st.one_of(st.just(1.2), uni(-1.0, 2 * gam - 0.2))),
                 R0=Ri * (1 + draw(logu(0.2, 40.0))), Ri=Ri, Gamma=G())
    elif n == 8:
        p = dict(gamma=draw(gamma_gt1()), alpha=draw(st.one_of(_alpha_std, st.just(2.0))), beta=draw(_beta_std),
                 rho0=draw(pos(1.8)), temp0=draw(pos(1.4)), Gamma=G())
    elif n == 9:
        p = dict(gamma=draw(gamma_gt1()), alpha=draw(_alpha_std), beta=draw(_beta_std), rho0=draw(pos(1.8)), Gamma=G())
    elif n == 10:
        p = dict(gamma=draw(gamma_gt1()), beta=draw(_beta_std), lambda0=draw(pos(0.1, decades=2)),
                 rho0=draw(pos(1.8)), temp0=draw(pos(1.4)), Gamma=G())
    elif n == 11:
        g = draw(gamma_gt1())
        pole = 1 + 2 / (k + 1)
        if abs(g - pole) < 0.05:
            g = pole + 0.07
        p = dict(gamma=g, beta=draw(_beta_std), rho0=draw(pos(1.8)), temp0=draw(pos(1.4)), Gamma=G())
    elif n == 12:
        p = dict(gamma=draw(uni(0.2, 0.95)), beta=draw(_beta_std), rho0=draw(pos(1.8)), u0=draw(pos(2.3)), Gamma=G())
    elif n == 13:
        alpha = draw(st.one_of(_alpha_std, st.just(2.0)))
        beta = draw(_beta_std)
        gmin = 1 + max(0.0, (1 - alpha)) / (beta + 3)
        g = gmin + draw(logu(0.05, 1.5))
        p = dict(gamma=g, rho0=draw(pos(1.8)), alpha=alpha, beta=beta, lambda0=draw(pos(0.1, decades=2)), Gamma=G())
    elif n == 14:
        beta = draw(_beta_std)
        if k == 1:
            alpha = draw(uni(-2.0, -0.1))
        else:
            alpha = draw(st.one_of(st.just(2.0), uni(0.6, 2.0)))
        p = dict(gamma=draw(gamma_gt1()), rho0=draw(pos(1.8)), alpha=alpha, beta=beta,
                 lambda0=draw(pos(0.1, decades=2)), Gamma=G())
    elif n == 16:
        p = dict(gamma=draw(gamma_gt1()), u0=draw(pos(2.3)), b=draw(uni(0.05, 0.95)) * k,
                 lambda0=draw(pos(0.1, decades=2)), Gamma=G())
    elif n == 17:
        p = dict(gamma=draw(gamma_gt1()), alpha=draw(st.one_of(st.just(2.0), uni(1.2, 3.0), _alpha_std)),
                 beta=draw(_beta_std), lambda0=draw(pos(0.1, decades=2)), Gamma=G())
    elif n == 18:
        p = dict(alpha=draw(_alpha_std), beta=draw(_beta_std), rho0=draw(pos(1.8)), tau=draw(pos(1.25)), Gamma=G())
    elif n == 19:
        p = dict(gamma=draw(gamma_gt1()), rho0=draw(pos(1.8)), u0=-draw(pos(2.3)), Gamma=G())
    elif n == 20:
        p = dict(gamma=draw(gamma_gt1()), rho0=draw(pos(1.8)), u0=draw(pos(2.3)), a=draw(pos(0.3)), Gamma=G())
    elif n == 21:
        p = dict(rho0=draw(pos(1.8)), temp0=draw(pos(2.9)), Gamma=draw(pos(400.0)))
    return p


def admissible(n, p, geometry):
    """closed-form admissibility (amplitudes real, finite, positive)"""
    k = geometry - 1.0
    try:
        if n == 14:
            b = (k - 1 - p['alpha'] * k) / (2 + p['alpha'] - 2 * (p['beta'] + 4))
            x2 = 2 * b + (p['gamma'] - 1) * (k + b)
            return 0.02 < b < k - 0.02 and abs(x2) > 1e-3
        if n == 17:
            al, be, g = p['alpha'], p['beta'], p['gamma']
            x1 = 2 * be - 4
            x2 = 2 * be + 5
            c0 = 1 / (1 - al)
            x3 = x1 + (1 - al) * (k + 1)
            x4 = 9 - (1 - al) * (k + 1)
            x5 = x1 + 2 * (1 - al)
            if min(abs(x3), abs(x5), abs(1 - al)) < 1e-2:
                return False
            u0 = x2 / x3
            temp0 = x2 * (al - 1) / x3 ** 2 * x4 / x5
            x6 = -2 + u0 * (2 + (g - 1) * (k + 1))
            x7 = 2 * (al * x1 * c0 + 2 * be + k + 7)
            if abs(x7) < 1e-2 or temp0 <= 0:
                return False
            return x6 / x7 > 0
        return True
    except (ZeroDivisionError, KeyError, OverflowError):
        return False


@st.composite
def cog_time(draw, n, p):
    """a time inside the validity interval of problem n"""
    if n in (6, 7, 18):
        # Cog7 declares t <= 0 invalid (NaN); keep the time stencil on the valid side for all three
        return draw(uni(0.02, 0.9)) * p['tau']
    if n == 20:
        return draw(uni(0.02, 0.45)) / p['a']
    if n == 3:
        return draw(uni(0.0, 2.0)) / abs(p['b'])
    if n in (4, 5, 10, 12, 14, 16):   # steady (or t enters trivially)
        return draw(st.one_of(st.just(0.0), logu(0.01, 10.0)))
    return draw(logu(0.05, 20.0))


def shock_radius(n, p, geometry, t):
    """position of the discontinuity as coded (None for smooth problems)"""
    if n == 19:
        return -(p['gamma'] - 1) * p['u0'] * t / 2
    if n == 20:
        c1 = 1 - p['a'] * t
        return p['u0'] * (p['gamma'] - 1) / (4 * p['a']) * t * (1 - 2 * p['a'] * t) / c1
    if n == 21:
        return 2 / (p['Gamma'] * p['temp0'] * t ** 2) if t > 0 else None
    return None


@st.composite
def cog_radii(draw, n, p, geometry, t, n_min=1, n_max=6):
    """radii where the solution is defined (for problems with a shock: both sides)"""
    rs = shock_radius(n, p, geometry, t)
    fr = draw(st.lists(logu(0.05, 20.0), min_size=n_min, max_size=n_max))
    if n == 7:
        rmin = p['Ri'] * math.sqrt(max(0.0, 1 - (t / p['tau']) ** 2))
        return [rmin * (1.02 + f) for f in fr]
    if rs is not None and rs > 0:
        return [rs * f for f in fr if abs(f - 1) > 1e-6] or [rs * 0.5]
    return fr


@st.composite
def cog_case(draw, ids=None, n_min=1, n_max=6, wrappers=True):
    n = draw(st.sampled_from(list(ids or COG_IDS)))
    geometry = draw(st.sampled_from(list(GEOMS[n])))
    for _ in range(20):
        p = draw(cog_params(n, geometry))
        if admissible(n, p, geometry):
            break
    else:
        p = None
    if p is None:
        from hypothesis import assume
        assume(False)
    t = draw(cog_time(n, p))
    x = draw(cog_radii(n, p, geometry, t, n_min, n_max))
    use_wrapper = wrappers and n not in NO_GEOM_PARAM and draw(st.integers(0, 3)) == 0
    params = dict(p)
    if n not in NO_GEOM_PARAM and not use_wrapper:
        params['geometry'] = geometry
    return dict(solver=path(n, geometry if use_wrapper else None), params=params, t=float(t), x=[float(v) for v in x],
                cog=n, geometry=geometry)
