"""Reference evaluator for C06: executed as the FIRST ExactPack activity of a fresh interpreter.
usage: python -m vp.c06ref '<json spec>'  -> prints one JSON line {"fields": {name: [...]}} or {"error": "..."}"""
import json, sys, os, warnings


def evaluate(spec):
    """spec: dict(solver, params, eos?, ic?, guess?, pts, t, layout) -> dict field -> list"""
    import numpy as np
    from . import cat
    warnings.simplefilter('ignore')
    np.seterr(all='ignore')
    s = cat.make_solver(spec)
    pts = np.asarray(spec['pts'], float)
    sol = cat.quiet(s, pts, spec['t'])
    out = {}
    for k in sol.dtype.names:
        v = np.asarray(sol[k])
        out[k] = [float(x) for x in v.ravel()] if v.dtype.kind == 'f' else [str(x) for x in v.ravel()]
    return out


def main():
    spec = json.loads(sys.argv[1])
    try:
        print(json.dumps(dict(fields=evaluate(spec))))
    except Exception as e:  # noqa
        print(json.dumps(dict(error='%s: %s' % (type(e).__name__, str(e)[:300]))))


if __name__ == '__main__':
    main()
