#!/venv/bin/python
"""Regenerate MANIFEST.json from the table below (run from /verif)."""
import json, os, sys

HERE = os.path.dirname(os.path.dirname(os.path.abspath(__file__)))
BASELINE_OFF = ("cd /repo && env -u LANL_EXACTPACK_VERIF /venv/bin/python -m pytest -ra -q -p no:cacheprovider "
                "--timeout=900 --continue-on-collection-errors")

sys.path.insert(0, HERE)
sys.path.insert(0, '/repo')
os.environ.setdefault('MPLBACKEND', 'Agg')

DEFAULT_TEXT = ('Generated-input exploration with an explicit oracle (see technique and the rule in the evidence file). It samples the '
                'input space with measured label histograms; it does not establish absence of violations.')
DEFAULT_NOTE = ('Trusts numpy/scipy arithmetic, Hypothesis generation and the harness recipes (admissible parameter domains read from '
                'constructors/docstrings); tolerances per DESIGN.md 2.5; recorded defects are listed in known_findings.json.')


def claimed():
    import glob, importlib
    out = {}
    for f in sorted(glob.glob(os.path.join(HERE, 'vp', 'props', 'c[0-9][0-9].py'))):
        pid = os.path.basename(f)[:-3].upper()
        m = importlib.import_module('vp.props.' + pid.lower())
        meta = getattr(m, 'META', {})
        if not getattr(m, 'OBLIGATIONS', None) or meta.get('claim') is False:
            continue
        out[pid] = (meta.get('technique', 'Hypothesis property-based testing'), meta.get('level_text', DEFAULT_TEXT),
                    meta.get('level_note', DEFAULT_NOTE) + ' ' + ' '.join(meta.get('assumptions', [])), 'DESIGN.md section 3 / ' + pid)
    return out


CLAIMED = claimed()
NOT_YET = {}


def main():
    props = [json.loads(l) for l in open(os.path.join(HERE, 'properties.jsonl'))]
    checks, na = [], []
    for p in props:
        pid = p['id']
        if pid in CLAIMED:
            tech, text, note, ref = CLAIMED[pid]
            checks.append(dict(property_id=pid,
                               quick_cmd='./check %s --tier quick' % pid,
                               thorough_cmd='./check %s --tier thorough' % pid,
                               evidence_file='evidence/%s.json' % pid,
                               replay_cmd_template='./check %s --replay {path}' % pid,
                               engine='vp',
                               level_claimed=dict(category='exploration', text=text, design_ref=ref),
                               level_note=note, technique=tech))
        else:
            na.append(dict(property_id=pid, reason=NOT_YET.get(pid, 'check not built yet in this revision (planned: see DESIGN.md section 3); not claimed until it is')))
    m = dict(version=1,
             setup_cmd='./setup.sh',
             hooks=dict(guard='LANL_EXACTPACK_VERIF', enable='no source hooks are needed: every property is observed through public calls/attributes; '
                        './check exports LANL_EXACTPACK_VERIF=1 and imports exactpack from /repo (PYTHONPATH), which is the build',
                        baseline_off_cmd=BASELINE_OFF, source_commits=[], add_only=True),
             engines=[dict(name='vp', path='vp/', serves_properties=sorted(CLAIMED),
                           kind_free_text='Hypothesis-driven property-based testing harness (sharded over 16 processes), '
                           'collect-then-shrink bucketing, known-finding matcher, replay files')],
             checks=checks,
             notes='All checks: exit 0 held / exit 1 + VIOLATION line / exit 2 harness error. VERIF_SEED selects the Hypothesis seed. '
                   'known_findings.json lists recorded defects (KNOWN-FINDING lines) and fixed: entries.',
             not_applicable=na)
    with open(os.path.join(HERE, 'MANIFEST.json'), 'w') as f:
        json.dump(m, f, indent=1)
    try:
        import jsonschema
        jsonschema.validate(m, json.load(open('/root/.vp/MANIFEST.schema.json')))
        print('MANIFEST valid;', len(checks), 'checks,', len(na), 'not claimed')
    except ImportError:
        print('jsonschema not available; wrote MANIFEST without validation')


if __name__ == '__main__':
    main()
