#!/venv/bin/python
"""Regenerate MANIFEST.json from the table below (run from /verif)."""
import json, os, sys

HERE = os.path.dirname(os.path.dirname(os.path.abspath(__file__)))
BASELINE_OFF = ("cd /repo && env -u LANL_EXACTPACK_VERIF /venv/bin/python -m pytest -ra -q -p no:cacheprovider "
                "--timeout=900 --continue-on-collection-errors")

# id -> (technique, level text, level note, design ref)
CLAIMED = {
    'C03': ('Hypothesis property-based testing: generated parameters/points/times per solver family, algebraic EOS identity oracle',
            'Generated-input exploration: every solver family that returns >=3 thermodynamic fields is called with '
            'generated admissible parameters (all geometries, non-default gamma/EOS constants, both sides of every '
            'discontinuity) and the declared EOS identities are evaluated on the fields of one call. It samples the '
            'parameter space, it does not cover it; evidence reports the label histogram actually reached.',
            'Trusts numpy arithmetic and the harness recipes (parameter domains read from constructors/docstrings). '
            'Interpolating solvers are compared away from transition cells / at table nodes. Guderley only at gamma in {2,3} in quick.',
            'DESIGN.md 3/C03'),
}

NOT_YET = {}


def main():
    props = [json.loads(l) for l in open(os.path.join(HERE, 'properties.jsonl'))]
    checks, na = [], []
    for p in props:
        pid = p['id']
        if pid in CLAIMED:
            tech, text, note, ref = CLAIMED[pid]
            checks.append(dict(property_id=pid,
                               quick_cmd='./check %s --tier quick' % pid,
                               thorough_cmd='./check %s --tier thorough' % pid,
                               evidence_file='evidence/%s.json' % pid,
                               replay_cmd_template='./check %s --replay {path}' % pid,
                               engine='vp',
                               level_claimed=dict(category='exploration', text=text, design_ref=ref),
                               level_note=note, technique=tech))
        else:
            na.append(dict(property_id=pid, reason=NOT_YET.get(pid, 'check not built yet in this revision (planned: see DESIGN.md section 3); not claimed until it is')))
    m = dict(version=1,
             setup_cmd='./setup.sh',
             hooks=dict(guard='LANL_EXACTPACK_VERIF', enable='no source hooks are needed: every property is observed through public calls/attributes; '
                        './check exports LANL_EXACTPACK_VERIF=1 and imports exactpack from /repo (PYTHONPATH), which is the build',
                        baseline_off_cmd=BASELINE_OFF, source_commits=[], add_only=True),
             engines=[dict(name='vp', path='vp/', serves_properties=sorted(CLAIMED),
                           kind_free_text='Hypothesis-driven property-based testing harness (sharded over 16 processes), '
                           'collect-then-shrink bucketing, known-finding matcher, replay files')],
             checks=checks,
             notes='All checks: exit 0 held / exit 1 + VIOLATION line / exit 2 harness error. VERIF_SEED selects the Hypothesis seed. '
                   'known_findings.json lists recorded defects (KNOWN-FINDING lines) and fixed: entries.',
             not_applicable=na)
    with open(os.path.join(HERE, 'MANIFEST.json'), 'w') as f:
        json.dump(m, f, indent=1)
    try:
        import jsonschema
        jsonschema.validate(m, json.load(open('/root/.vp/MANIFEST.schema.json')))
        print('MANIFEST valid;', len(checks), 'checks,', len(na), 'not claimed')
    except ImportError:
        print('jsonschema not available; wrote MANIFEST without validation')


if __name__ == '__main__':
    main()
