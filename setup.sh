#!/bin/bash
# offline setup: make sure hypothesis is importable beside the repo's packages
HERE="$(cd "$(dirname "${BASH_SOURCE[0]}")" && pwd)"
cd "$HERE"
mkdir -p .deps evidence replays
if ! PYTHONPATH="$HERE/.deps" /venv/bin/python -c "import hypothesis" 2>/dev/null; then
  /venv/bin/pip install --no-index --find-links /opt/veriftools/wheels --target "$HERE/.deps" hypothesis || exit 1
fi
if ! PYTHONPATH="$HERE/.deps" /venv/bin/python -c "import atheris" 2>/dev/null; then
  /venv/bin/pip install --no-index --find-links /opt/veriftools/wheels --target "$HERE/.deps" atheris || exit 1
fi
PYTHONPATH="/repo:$HERE/.deps" /venv/bin/python -c "import hypothesis, atheris, numpy, scipy, exactpack; print('setup ok', hypothesis.__version__)"
